// C10 — allocators never hand out overlapping or out-of-arena memory.
//
// Targets: pool_c (datastruct/pool.h), pool_cxx (igris::pool), object_pool
// (static_object_pool<Tracked,N>), heap (compat/mem lin_malloc/realloc/free,
// linked as lin_* — see C10_linheap_pre.h), heap_enum (exhaustive short
// histories). Oracle: a shadow map of the live blocks {address, size, fill}.
#include "vpbt.h"
#include <sys/mman.h>

#include <algorithm>
#include <array>
#include <cstdint>
#include <cstring>
#include <set>
#include <string>
#include <vector>

#include <igris/container/pool.h>
#include <igris/container/static_object_pool.h>
#include <igris/datastruct/pool.h>

using namespace vpbt;

// ------------------------------------------------------------- shadow model
struct Blk
{
    uint8_t *p;
    size_t n;
    uint8_t fill;
    unsigned id;
};

// position-dependent pattern: a shifted or partial copy does not verify
static inline uint8_t pat(uint8_t fill, size_t i) { return (uint8_t)(fill + (uint8_t)(i * 31u)); }
static void fill_bytes(uint8_t *p, size_t n, uint8_t fill)
{
    for (size_t i = 0; i < n; i++)
        p[i] = pat(fill, i);
}
static long first_diff(const uint8_t *p, size_t n, uint8_t fill)
{
    for (size_t i = 0; i < n; i++)
        if (p[i] != pat(fill, i))
            return (long)i;
    return -1;
}
static uint8_t next_fill(unsigned &ctr)
{
    ctr++;
    return (uint8_t)(1 + (ctr * 37u) % 255u);
}
// a zero-size block still needs an address of its own
static const Blk *overlapping(const std::vector<Blk> &live, const uint8_t *p, size_t n)
{
    uintptr_t a = (uintptr_t)p, ae = a + (n ? n : 1);
    for (auto &b : live)
    {
        uintptr_t q = (uintptr_t)b.p, qe = q + (b.n ? b.n : 1);
        if (a < qe && q < ae)
            return &b;
    }
    return nullptr;
}
static const char *const ORDER[] = {"lifo", "fifo", "random", "mixed"};
// which live block (kept in allocation order) a free takes
static size_t victim(Src &s, unsigned order, size_t nlive)
{
    if (order == 3)
        order = (unsigned)s.below(3);
    if (order == 0)
        return nlive - 1;
    if (order == 1)
        return 0;
    return (size_t)s.below(nlive);
}
static std::string sg(const char *target, const char *what) { return std::string(target) + "_" + what; }

// =========================================================================
// Fixed-block pools. One history runner over three adapters.
//
// Adapter: cap, elemsz, zone; alloc(fill) -> cell or null, stamp(p, fill) fills
// an admitted cell, release(p), verify(p, fill) -> index of first changed byte or -1, avail(),
// allocated(idx), step(c, nlive) / probe(c, live) for adapter-specific checks.
template <class A> static void pool_history(Src &s, Case &c, A &a, const char *T)
{
    const size_t cap = a.cap, elemsz = a.elemsz;
    // the history lasts as long as the choice sequence does (at most 200
    // steps), so a truncated sequence is a shorter history
    size_t budget = 200;
    unsigned order = (unsigned)s.below(4);
    unsigned bias = (unsigned)s.below(4);
    c.log("%s elemsz=%zu cap=%zu free_order=%s bias=%u\n", T, elemsz, cap, ORDER[order], bias);
    c.label(ORDER[order]);

    std::vector<Blk> live;
    unsigned fc = 0, ids = 0;
    int phase = 0; // 1 exhausted, 2 then freed, 3 then allocated again

    auto cell_index = [&](const void *p) { return (long)(((const uint8_t *)p - a.zone) / (long)elemsz); };

    auto invariants = [&]() {
        size_t av = a.avail();
        VP_CHECK(av == cap - live.size(), sg(T, "free_count"), "free count %zu, capacity %zu - live %zu = %zu", av,
                 cap, live.size(), cap - live.size());
        a.step(c, live.size());
    };
    auto do_alloc = [&]() {
        bool full = live.size() == cap;
        if (full && a.skip_alloc_when_full(c))
        {
            c.log("(a-full skipped) ");
            return;
        }
        uint8_t f = next_fill(fc);
        uint8_t *p = (uint8_t *)a.alloc(f);
        if (full)
        {
            c.log("a=NULL? ");
            if (!a.final_phase)
                c.label("alloc_on_exhausted");
            VP_CHECK(p == nullptr, sg(T, "alloc_beyond_capacity"),
                     "all %zu cells are live, alloc returned %p (cell %ld)", cap, (void *)p, cell_index(p));
            a.after_failed_alloc(c);
            invariants();
            return;
        }
        VP_CHECK(p != nullptr, sg(T, "null_before_capacity"), "alloc returned NULL with %zu of %zu cells live",
                 live.size(), cap);
        uintptr_t z = (uintptr_t)a.zone, u = (uintptr_t)p;
        VP_CHECK(u >= z && u + elemsz <= z + cap * elemsz, sg(T, "outside_zone"),
                 "cell %p outside zone [%p,+%zu)", (void *)p, (void *)a.zone, cap * elemsz);
        VP_CHECK((u - z) % elemsz == 0, sg(T, "off_cell_boundary"), "cell at zone+%zu, element size %zu",
                 (size_t)(u - z), elemsz);
        VP_CHECK(u % a.align == 0, sg(T, "misaligned"), "cell %p not aligned to %zu", (void *)p, (size_t)a.align);
        const Blk *o = overlapping(live, p, elemsz);
        VP_CHECK(!o, sg(T, "overlap"), "cell %ld handed out while it is live (block #%u)", cell_index(p),
                 o ? o->id : 0);
        a.stamp(p, f);
        live.push_back(Blk{p, elemsz, f, ++ids});
        c.log("a#%u=c%ld ", ids, cell_index(p));
        VP_CHECK(a.allocated((size_t)cell_index(p)) != 0, sg(T, "allocated_cell_in_freelist"),
                 "cell %ld was just handed out and is still reported free", cell_index(p));
        if (live.size() == cap && !a.final_phase)
        {
            c.label("exhausted");
            if (phase == 0)
                phase = 1;
        }
        if (phase == 2)
        {
            phase = 3;
            c.nontrivial = true;
        }
        invariants();
    };
    auto do_free = [&](size_t i) {
        Blk b = live[i];
        long d = a.verify(b.p, b.fill);
        VP_CHECK(d < 0, sg(T, "content_changed"), "live block #%u (cell %ld) changed at byte %ld before its free",
                 b.id, cell_index(b.p), d);
        a.release(b.p);
        live.erase(live.begin() + (long)i);
        c.log("f#%u ", b.id);
        VP_CHECK(a.allocated((size_t)cell_index(b.p)) != 1, sg(T, "freed_cell_not_in_freelist"),
                 "cell %ld was just freed and is still reported allocated", cell_index(b.p));
        if (phase == 1)
            phase = 2;
        invariants();
    };
    auto probe = [&]() {
        c.log("probe ");
        for (size_t i = 0; i < cap; i++)
        {
            int got = a.allocated(i);
            if (got < 0)
                break;
            bool want = false;
            for (auto &b : live)
                want |= b.p == a.zone + i * elemsz;
            VP_CHECK((got != 0) == want, sg(T, "cell_is_allocated"), "cell %zu reported %s, model says %s", i,
                     got ? "allocated" : "free", want ? "allocated" : "free");
        }
        a.probe(c, live);
    };

    invariants();
    while (budget > 0 && !s.exhausted())
    {
        static const unsigned W[4][2] = {{3, 2}, {2, 1}, {1, 1}, {1, 2}};
        size_t op = s.weighted({W[bias][0] * 4, W[bias][1] * 4, 2, 1, 1, 1});
        budget--;
        switch (op)
        {
        case 0:
            do_alloc();
            break;
        case 1:
            if (live.empty())
                do_alloc();
            else
                do_free(victim(s, order, live.size()));
            break;
        case 2:
            probe();
            break;
        case 3: // fill up, then ask once more
            c.log("[fill] ");
            while (live.size() < cap && budget > 0)
            {
                do_alloc();
                budget--;
            }
            if (live.size() == cap)
                do_alloc();
            break;
        case 4: // drain
            c.log("[drain] ");
            while (!live.empty() && budget > 0)
            {
                do_free(victim(s, order, live.size()));
                budget--;
            }
            break;
        default:
            a.extra_op(c);
            invariants();
        }
    }
    // end of history: contents, bookkeeping, free everything, and the pool must
    // again hand out exactly its capacity.
    c.log("\n[end live=%zu] ", live.size());
    for (auto &b : live)
    {
        long d = a.verify(b.p, b.fill);
        VP_CHECK(d < 0, sg(T, "content_changed"), "live block #%u (cell %ld) changed at byte %ld at the end", b.id,
                 cell_index(b.p), d);
    }
    probe();
    while (!live.empty())
        do_free(victim(s, order, live.size()));
    probe();
    a.final_phase = true;
    for (size_t i = 0; i < cap; i++)
        do_alloc();
    do_alloc(); // capacity + 1: must answer null
    probe();
    while (!live.empty())
        do_free(live.size() - 1);
}

static size_t pick_elemsz(Src &s) { return s.pick<size_t>({8, 16, 24, 40, 64, 104}); }

struct RawAdapterBase
{
    size_t cap, elemsz, align = sizeof(void *);
    uint8_t *zone;
    bool final_phase = false;
    long verify(void *p, uint8_t f) { return first_diff((uint8_t *)p, elemsz, f); }
    void stamp(void *p, uint8_t f) { fill_bytes((uint8_t *)p, elemsz, f); }
};

// ---------------------------------------------------------------- pool_c
struct PoolC : RawAdapterBase
{
    struct pool_head head;
    PoolC(uint8_t *z, size_t cap_, size_t el)
    {
        zone = z, cap = cap_, elemsz = el;
        pool_init(&head);
        pool_engage(&head, zone, cap * elemsz, elemsz);
    }
    void *alloc(uint8_t) { return pool_alloc(&head); }
    void release(void *p) { pool_free(&head, p); }
    size_t avail() { return pool_avail(&head); }
    int allocated(size_t i) { return !pool_in_freelist(&head, zone + i * elemsz); }
    bool skip_alloc_when_full(Case &) { return false; }
    void after_failed_alloc(Case &) {}
    void step(Case &, size_t) {}
    void probe(Case &, const std::vector<Blk> &) {}
    void extra_op(Case &c) { c.log("nop "); }
};
static void pool_c_target(Src &s, Case &c)
{
    size_t el = pick_elemsz(s), cap = (size_t)s.range(1, 32);
    Exact zone(el * cap);
    memset(zone.p, 0xA5, el * cap);
    PoolC a(zone.p, cap, el);
    pool_history(s, c, a, "pool_c");
}
VP_TARGET("pool_c", pool_c_target,
          "pool_head over an exactly-sized zone, element size in {8,16,24,40,64,104}, capacity 1..32, up to 200 "
          "alloc/free/probe steps (free order LIFO/FIFO/random/mixed, fill-up and drain bursts, alloc on the "
          "exhausted pool), then free all and re-allocate capacity+1 times; non-trivial = the history went "
          "exhausted -> free -> alloc");

// A pool enlarged by a second pool_engage() (two start-up zones, or a pool grown later — paged pools do this): the cells
// of both zones count. The two zones are the two halves of one exactly-sized block, so the adapter's single-zone view holds.
static void pool_c_two_zones_target(Src &s, Case &c)
{
    size_t el = pick_elemsz(s), cap1 = (size_t)s.range(1, 12), cap2 = (size_t)s.range(1, 12);
    Exact zone(el * (cap1 + cap2));
    memset(zone.p, 0xA5, el * (cap1 + cap2));
    PoolC a(zone.p, cap1, el); // engages the first zone
    // some traffic on the first zone; everything is returned before the pool grows (in a drawn order)
    size_t take = (size_t)s.below(cap1 + 1);
    std::vector<void *> got;
    for (size_t i = 0; i < take; i++)
        got.push_back(pool_alloc(&a.head));
    while (!got.empty())
    {
        size_t k = (size_t)s.below(got.size());
        pool_free(&a.head, got[k]);
        got.erase(got.begin() + (long)k);
    }
    c.log("zone 1: %zu cells of %zu bytes (%zu taken and returned), then pool_engage of %zu more cells: ", cap1, el, take, cap2);
    pool_engage(&a.head, zone.p + cap1 * el, cap2 * el, el);
    a.cap = cap1 + cap2;
    pool_history(s, c, a, "pool_c");
}
VP_TARGET("pool_c_two_zones", pool_c_two_zones_target,
          "pool_head with two zones: 1..12 cells engaged, some taken and all returned in a drawn order, then pool_engage() of 1..12 more cells behind them; then the full pool_c "
          "history and checks over all cells (capacity before null, free count, cells inside the zones)");

static size_t big_cap(Src &s) { return (size_t)(s.weighted({3, 1, 1}) == 0 ? s.range(250, 262) : s.coin() ? s.range(33, 300) : s.range(508, 516)); }
static void pool_c_big_target(Src &s, Case &c)
{
    size_t el = pick_elemsz(s), cap = big_cap(s);
    Exact zone(el * cap);
    memset(zone.p, 0xA5, el * cap);
    PoolC a(zone.p, cap, el);
    pool_history(s, c, a, "pool_c");
}
VP_TARGET("pool_c_big", pool_c_big_target,
          "pool_head with capacity 250..262, 33..300 or 508..516 (more cells than a one-byte count holds): same history and final "
          "exhaust / free all / re-allocate capacity+1 phase as pool_c");

// -------------------------------------------------------------- pool_cxx
static const char K_POOL_GET[] = "C10-pool-get-null-count";
struct PoolCxx : RawAdapterBase
{
    igris::pool pl;
    bool room_tainted = false;
    const bool k_get = known_active(K_POOL_GET);
    PoolCxx(uint8_t *z, size_t cap_, size_t el) : pl(z, cap_ * el, el) { zone = z, cap = cap_, elemsz = el; }
    void *alloc(uint8_t) { return pl.get(); }
    void release(void *p) { pl.put(p); }
    size_t avail() { return pl.avail(); }
    int allocated(size_t i) { return pl.cell_is_allocated((int)i); }
    // Known finding: get() on an exhausted pool decrements the free count.
    // With the finding active the in-history request on a full pool is left
    // out (so room() stays checked through the whole history); the request is
    // still made once in the final phase, where NULL is required and room() is
    // not looked at afterwards.
    bool skip_alloc_when_full(Case &c)
    {
        if (k_get && !final_phase)
        {
            c.known_hit(K_POOL_GET);
            return true;
        }
        return false;
    }
    void after_failed_alloc(Case &c)
    {
        if (k_get)
        {
            c.known_hit(K_POOL_GET);
            room_tainted = true;
        }
    }
    void step(Case &, size_t nlive)
    {
        VP_CHECK(pl.size() == cap, "pool_cxx_size", "size() %zu, capacity %zu", pl.size(), cap);
        VP_CHECK(pl.element_size() == elemsz, "pool_cxx_element_size", "element_size() %zu, expected %zu",
                 pl.element_size(), elemsz);
        if (!room_tainted)
            VP_CHECK(pl.room() == cap - nlive, "pool_cxx_room", "room() %zu, capacity %zu - live %zu = %zu",
                     pl.room(), cap, nlive, cap - nlive);
    }
    void probe(Case &, const std::vector<Blk> &live)
    {
        VP_CHECK(!pl.cell_is_allocated(-1) && !pl.cell_is_allocated((int)cap), "pool_cxx_cell_is_allocated_range",
                 "cell_is_allocated(-1)=%d cell_is_allocated(%zu)=%d", (int)pl.cell_is_allocated(-1), cap,
                 (int)pl.cell_is_allocated((int)cap));
        // iteration visits exactly the live cells, in index order
        std::vector<uint8_t *> want;
        for (auto &b : live)
            want.push_back(b.p);
        std::sort(want.begin(), want.end());
        std::vector<uint8_t *> got;
        size_t guard = 0;
        for (auto it = pl.begin(); it != pl.end(); ++it)
        {
            got.push_back((uint8_t *)*it);
            VP_CHECK(++guard <= cap, "pool_cxx_iteration", "iteration yields more than %zu cells", cap);
        }
        VP_CHECK(got == want, "pool_cxx_iteration", "iteration visited %zu cells, %zu are live%s", got.size(),
                 want.size(), got.size() == want.size() ? " (different cells or order)" : "");
        for (size_t i = 0; i < cap; i++)
            VP_CHECK((uint8_t *)pl.cell((int)i) == zone + i * elemsz, "pool_cxx_cell", "cell(%zu) wrong", i);
    }
    void extra_op(Case &c)
    {
        c.log("put(NULL) ");
        pl.put(nullptr);
    }
};
static void pool_cxx_target(Src &s, Case &c)
{
    size_t el = pick_elemsz(s), cap = (size_t)s.range(1, 32);
    Exact zone(el * cap);
    memset(zone.p, 0xA5, el * cap);
    PoolCxx a(zone.p, cap, el);
    pool_history(s, c, a, "pool_cxx");
}
VP_TARGET("pool_cxx", pool_cxx_target,
          "igris::pool over an exactly-sized zone, element size in {8,16,24,40,64,104}, capacity 1..32, up to 200 "
          "get/put/put(NULL)/probe steps (cell_is_allocated for every index, iteration over allocated cells, "
          "room/avail/size), then put all and get capacity+1 times; non-trivial = exhausted -> put -> get");

static void pool_cxx_big_target(Src &s, Case &c)
{
    size_t el = pick_elemsz(s), cap = big_cap(s);
    Exact zone(el * cap);
    memset(zone.p, 0xA5, el * cap);
    PoolCxx a(zone.p, cap, el);
    pool_history(s, c, a, "pool_cxx");
}
// The same pool object initialised a second time (igris::pool::init on a used pool: new zone, new cell size, new
// capacity) and run through a second complete history: nothing of the first configuration may survive.
static void pool_cxx_reinit_target(Src &s, Case &c)
{
    size_t el = pick_elemsz(s), cap = (size_t)s.range(1, 16);
    Exact zone(el * cap);
    memset(zone.p, 0xA5, el * cap);
    PoolCxx a(zone.p, cap, el);
    // first life: a few gets and puts, ending with 0..cap cells still handed out
    size_t take = (size_t)s.below(cap + 1), back = (size_t)s.below(take + 1);
    std::vector<void *> got;
    for (size_t i = 0; i < take; i++)
        got.push_back(a.pl.get());
    for (size_t i = 0; i < back; i++)
        a.pl.put(got[i]);
    c.log("first life: elemsz=%zu cap=%zu, %zu taken, %zu returned; then init() over a new zone: ", el, cap, take, back);
    size_t el2 = pick_elemsz(s), cap2 = (size_t)s.range(1, 16);
    Exact zone2(el2 * cap2);
    memset(zone2.p, 0xA5, el2 * cap2);
    a.pl.init(zone2.p, cap2 * el2, el2);
    a.zone = zone2.p;
    a.cap = cap2;
    a.elemsz = el2;
    c.label(back < take ? "reinit_with_cells_out" : take ? "reinit_after_use" : "reinit_unused");
    pool_history(s, c, a, "pool_cxx");
}
VP_TARGET("pool_cxx_reinit", pool_cxx_reinit_target,
          "igris::pool used (0..capacity cells taken, some returned), then init() again over a new exactly-sized zone with another cell size and "
          "capacity, then the full pool_cxx history and checks against the new configuration (capacity before null, cells inside the new zone, free count)");
VP_TARGET("pool_cxx_big", pool_cxx_big_target, "igris::pool with capacity 250..262, 33..300 or 508..516: same history and checks as pool_cxx");

// Pools of thousands of cells (a packet pool, an event pool): few, large steps. Every cell handed out is inside the zone,
// on a cell boundary and not handed out already; the free count is compared after each burst (it walks the free list).
template <class A> static void pool_huge(Src &s, Case &c, const char *what)
{
    size_t el = s.coin() ? 8 : 16;
    size_t cap = s.coin() ? (size_t)s.pick<uint32_t>({4095, 4096, 4097, 5000, 8191, 8192, 8193, 32767, 32768, 32769, 65535, 65536, 65537, 70000})
                          : (size_t)s.range(3000, 70000);
    Exact zone(el * cap);
    memset(zone.p, 0xA5, el * cap);
    A a(zone.p, cap, el);
    c.log("%s elemsz=%zu cap=%zu: ", what, el, cap);
    std::vector<uint8_t> out(cap, 0);
    std::vector<size_t> live; // cell indices, in allocation order
    auto counts = [&](const char *when) {
        size_t av = a.avail();
        VP_CHECK(av == cap - live.size(), "pool_free_count", "%s: %zu free reported, capacity %zu - live %zu = %zu", when, av, cap, live.size(), cap - live.size());
    };
    auto take = [&](size_t k) {
        c.log("get x%zu ", k);
        for (size_t i = 0; i < k; i++)
        {
            uint8_t *p = (uint8_t *)a.alloc(0);
            if (live.size() == cap)
            {
                VP_CHECK(p == nullptr, "pool_over_capacity", "allocation #%zu succeeded with all %zu cells out", live.size() + 1, cap);
                return;
            }
            VP_CHECK(p != nullptr, "pool_null_before_capacity", "allocation #%zu failed, capacity %zu", live.size() + 1, cap);
            VP_CHECK(p >= zone.p && p < zone.p + el * cap && (size_t)(p - zone.p) % el == 0, "pool_cell_outside_zone", "cell at zone%+td (cell size %zu, %zu cells)",
                     p - zone.p, el, cap);
            size_t idx = (size_t)(p - zone.p) / el;
            VP_CHECK(!out[idx], "pool_cell_handed_out_twice", "cell %zu handed out while it is live", idx);
            out[idx] = 1;
            live.push_back(idx);
        }
    };
    auto give = [&](size_t k, int order) {
        c.log("put x%zu (%s) ", k, order == 0 ? "newest first" : order == 1 ? "oldest first" : "every other");
        for (size_t i = 0; i < k && !live.empty(); i++)
        {
            size_t at = order == 0 ? live.size() - 1 : order == 1 ? 0 : (i * 2) % live.size();
            size_t idx = live[at];
            // O(1) removal: order of the remaining entries does not matter to the checks
            live[at] = live.back();
            live.pop_back();
            out[idx] = 0;
            a.release(zone.p + idx * el);
        }
    };
    counts("fresh pool");
    bool exhausted = false, refilled = false;
    for (unsigned r = 0, rounds = 2 + (unsigned)s.below(3); r < rounds; r++)
    {
        size_t room = cap - live.size();
        size_t k = s.below(3) == 0 ? room + 1 : s.coin() ? room : (size_t)s.below(room + 1);
        take(k);
        if (live.size() == cap)
        {
            if (exhausted)
                refilled = true;
            exhausted = true;
        }
        counts("after a burst of allocations");
        size_t g = s.below(3) == 0 ? live.size() : s.coin() ? (size_t)s.below(live.size() + 1) : std::min<size_t>(live.size(), 1 + (size_t)s.below(5000));
        give(g, (int)s.below(3));
        counts("after a burst of frees");
    }
    take(cap - live.size() + 1);
    VP_CHECK(live.size() == cap, "pool_null_before_capacity", "only %zu of %zu cells could be taken at the end", live.size(), cap);
    counts("exhausted");
    give(live.size(), 1);
    counts("all returned");
    c.nontrivial = exhausted;
    if (refilled)
        c.label("exhausted_twice");
    c.label(cap > 65535 ? "cap>65535" : cap > 32767 ? "cap>32767" : cap > 4096 ? "cap>4096" : "cap<=4096");
}
static void pool_c_huge_target(Src &s, Case &c) { pool_huge<PoolC>(s, c, "pool_c"); }
static void pool_cxx_huge_target(Src &s, Case &c) { pool_huge<PoolCxx>(s, c, "pool_cxx"); }
VP_TARGET("pool_c_huge", pool_c_huge_target,
          "pool_head with 3000..70000 cells of 8 / 16 bytes (4096, 8192, 2^15, 2^16 and their neighbours over-weighted): 2..4 rounds of an allocation burst and a free burst "
          "(newest first / oldest first / every other), then exhaust and return all; every cell inside the zone, on a cell boundary, never handed out twice; free count after "
          "every burst; null exactly at capacity; non-trivial = the pool was exhausted during the rounds");
VP_TARGET("pool_cxx_huge", pool_cxx_huge_target, "igris::pool with 3000..70000 cells: the bursts and checks of pool_c_huge");

// ------------------------------------------------------------ object_pool
// Element type that owns a heap byte (leaks / double destruction are ASan
// visible) and registers `this` in a global live set.
struct Tracked
{
    char *heap;
    uint64_t id;
    uint64_t guard;
    static std::set<const void *> &live()
    {
        static std::set<const void *> l;
        return l;
    }
    uint64_t idv() const { return id; }
    static const char *err;
    static long ctors, dtors;
    static void reset()
    {
        live().clear(); // leftovers of a case that failed: their storage is gone already
        err = nullptr;
        ctors = dtors = 0;
    }
    explicit Tracked(uint64_t id_) : heap(new char((char)id_)), id(id_), guard(~id_ ^ 0x5a5a5a5a5a5a5a5aull)
    {
        ctors++;
        if (!live().insert(this).second && !err)
            err = "constructed_at_live_address";
    }
    Tracked(const Tracked &) = delete;
    Tracked &operator=(const Tracked &) = delete;
    bool intact() const { return guard == (~id ^ 0x5a5a5a5a5a5a5a5aull) && *heap == (char)id; }
    ~Tracked()
    {
        dtors++;
        if (!live().erase(this))
        {
            if (!err)
                err = "destroyed_non_live_object";
            return;
        }
        delete heap;
    }
};
const char *Tracked::err = nullptr;
long Tracked::ctors = 0, Tracked::dtors = 0;

// Element types whose size is not a multiple of the pointer size (and with small alignment):
// the pool's cell stride must be the padded cell size, not the element size. Same ledger as Tracked.
template <size_t B, size_t A> struct alignas(A) Lite
{
    unsigned char raw[B];
    explicit Lite(uint64_t id_)
    {
        Tracked::ctors++;
        if (!Tracked::live().insert(this).second && !Tracked::err)
            Tracked::err = "constructed_at_live_address";
        memset(raw, (int)(uint8_t)id_, B);
    }
    Lite(const Lite &) = delete;
    Lite &operator=(const Lite &) = delete;
    uint64_t idv() const { return raw[0]; }
    bool intact() const
    {
        for (size_t i = 1; i < B; i++)
            if (raw[i] != raw[0])
                return false;
        return true;
    }
    ~Lite()
    {
        Tracked::dtors++;
        if (!Tracked::live().erase(this) && !Tracked::err)
            Tracked::err = "destroyed_non_live_object";
    }
};

// over-aligned element types: "aligned for its use" must hold for them as well
struct alignas(32) Tracked32 : Tracked
{
    using Tracked::Tracked;
    char pad32[8];
};
struct alignas(64) Tracked64 : Tracked
{
    using Tracked::Tracked;
};

template <class E, size_t N> struct ObjPool
{
    using P = igris::static_object_pool<E, N>;
    size_t cap = N, elemsz = sizeof(typename P::storage_type), align = alignof(E);
    uint8_t *zone;
    bool final_phase = false;
    P *pl; // on the heap: ASan red zones around the storage
    long made = 0, gone = 0;
    ObjPool() : pl(new P()) { zone = (uint8_t *)pl->storage.data(); }
    ~ObjPool() { delete pl; }
    void *alloc(uint8_t f)
    {
        E *t = pl->create((uint64_t)f);
        if (t)
            made++;
        return t;
    }
    void release(void *p)
    {
        pl->destroy((E *)p);
        gone++;
    }
    void stamp(void *, uint8_t) {} // the object constructed in the cell is the content
    long verify(void *p, uint8_t f)
    {
        const E *t = (const E *)p;
        if (!Tracked::live().count(t))
            return 0;
        return ((uint8_t)t->idv() == f && t->intact()) ? -1 : 0;
    }
    size_t avail() { return pl->avail(); }
    int allocated(size_t i) { return !pool_in_freelist(pl->freelist(), zone + i * elemsz); }
    bool skip_alloc_when_full(Case &) { return false; }
    void after_failed_alloc(Case &) {}
    void step(Case &, size_t nlive)
    {
        VP_CHECK(!Tracked::err, std::string("object_pool_") + (Tracked::err ? Tracked::err : ""), "Tracked: %s",
                 Tracked::err);
        VP_CHECK(Tracked::ctors == made && Tracked::dtors == gone, "object_pool_lifetimes",
                 "constructors %ld (successful create %ld), destructors %ld (destroy %ld)", Tracked::ctors, made,
                 Tracked::dtors, gone);
        VP_CHECK(Tracked::live().size() == nlive, "object_pool_lifetimes", "%zu objects alive, %zu blocks live",
                 Tracked::live().size(), nlive);
    }
    void probe(Case &, const std::vector<Blk> &live)
    {
        for (auto &b : live)
            VP_CHECK(Tracked::live().count((const void *)b.p), "object_pool_lifetimes",
                     "block #%u is live but its object is not", b.id);
    }
    void extra_op(Case &c) { c.log("nop "); }
};
template <class E, size_t N> static void object_pool_n(Src &s, Case &c)
{
    Tracked::reset();
    {
        ObjPool<E, N> a;
        pool_history(s, c, a, "object_pool");
        VP_CHECK(Tracked::live().empty() && Tracked::ctors == Tracked::dtors, "object_pool_lifetimes",
                 "after destroying everything: %zu alive, %ld constructed, %ld destroyed", Tracked::live().size(),
                 Tracked::ctors, Tracked::dtors);
    }
}
static void object_pool_target(Src &s, Case &c)
{
    switch (s.below(9))
    {
    case 6:
        c.label("size12_align4,N=3");
        return object_pool_n<Lite<12, 4>, 3>(s, c);
    case 7:
        c.label("size9_align1,N=5");
        return object_pool_n<Lite<9, 1>, 5>(s, c);
    case 8:
        c.label("size20_align4,N=4");
        return object_pool_n<Lite<20, 4>, 4>(s, c);
    case 0:
        c.label("N=4");
        return object_pool_n<Tracked, 4>(s, c);
    case 1:
        c.label("N=1");
        return object_pool_n<Tracked, 1>(s, c);
    case 2:
        c.label("N=16");
        return object_pool_n<Tracked, 16>(s, c);
    case 3:
        c.label("alignas32,N=4");
        return object_pool_n<Tracked32, 4>(s, c);
    case 4:
        c.label("alignas64,N=3");
        return object_pool_n<Tracked64, 3>(s, c);
    default:
        c.label("alignas32,N=1");
        return object_pool_n<Tracked32, 1>(s, c);
    }
}
VP_TARGET("object_pool", object_pool_target,
          "static_object_pool<Tracked,N>, N in {1,4,16} (pool object on the heap), up to 200 create/destroy/probe "
          "steps as for the pools; Tracked owns a heap byte and registers itself in a live set; non-trivial = "
          "exhausted -> destroy -> create");

// =========================================================================
// The bare-metal heap: /repo/compat/mem/lin_malloc.cpp + lin_realloc.cpp,
// entry points renamed lin_* by the pre-include, arena provided here.
static constexpr size_t ARENA = 256 * 1024;
alignas(16) char _heap_start[ARENA]; // ASan red zones on both sides

struct __freelist;
extern char *__brkval;
extern struct __freelist *__flp;
extern int __allocation_counter;
extern char *__malloc_heap_start;
extern "C"
{
    void *lin_malloc(size_t);
    void lin_free(void *);
    void *lin_realloc(void *, size_t);
}

static const char K_ZERO[] = "C10-realloc-zero";
static const char K_SHRINK[] = "C10-realloc-shrink-counter";
static constexpr size_t MAX_LIVE = 90; // the code asserts __allocation_counter < 100

// upper bound of what one block of `sz` bytes takes from the arena: header +
// the size rounded up to the allocator's granule (64 on this host)
static size_t need(size_t sz) { return 8 + std::max<size_t>(16, (sz + 63) / 64 * 64); }

struct Heap
{
    Case &c;
    std::vector<Blk> live; // allocation order
    unsigned fc = 0, ids = 0;
    size_t demand = 0;
    bool ever = false;
    const bool k_zero = known_active(K_ZERO), k_shrink = known_active(K_SHRINK);
    static size_t dirty;

    explicit Heap(Case &c_) : c(c_)
    {
        // every global of the allocator, and a deterministic arena
        memset(_heap_start, 0xA5, dirty);
        dirty = 0;
        __brkval = nullptr;
        __flp = nullptr;
        __allocation_counter = 0;
        __malloc_heap_start = _heap_start;
    }
    static char *brk() { return __brkval ? __brkval : _heap_start; }
    static void note_brk()
    {
        uintptr_t b = (uintptr_t)brk(), a = (uintptr_t)_heap_start;
        size_t off = (b >= a && b <= a + ARENA) ? (size_t)(b - a) + 64 : ARENA;
        dirty = std::min(ARENA, std::max(dirty, off));
    }
    // may the caller ask for `sz` more bytes now? (the shim has no
    // end-of-arena check: staying inside is the caller's obligation)
    bool fits(size_t sz) const
    {
        if (demand + need(sz) > ARENA / 2)
            return false;
        uintptr_t b = (uintptr_t)brk(), e = (uintptr_t)_heap_start + ARENA;
        return b <= e && e - b >= need(sz) + 64;
    }
    long find(unsigned id) const
    {
        for (size_t i = 0; i < live.size(); i++)
            if (live[i].id == id)
                return (long)i;
        return -1;
    }
    void check_block(const char *op, uint8_t *p, size_t sz)
    {
        VP_CHECK(p != nullptr, "heap_null", "%s(%zu) returned NULL with %zu of %zu arena bytes in demand", op, sz,
                 demand, ARENA);
        uintptr_t a = (uintptr_t)_heap_start, u = (uintptr_t)p;
        VP_CHECK(u >= a && u <= a + ARENA && sz <= a + ARENA - u, "heap_outside_arena",
                 "%s(%zu) returned %p, arena is [%p,+%zu)", op, sz, (void *)p, (void *)_heap_start, ARENA);
        VP_CHECK(u % sizeof(void *) == 0, "heap_misaligned", "%s(%zu) returned arena+%zu", op, sz, (size_t)(u - a));
        const Blk *o = overlapping(live, p, sz);
        VP_CHECK(!o, "heap_overlap", "%s(%zu) returned arena+%zu, overlapping live block #%u [arena+%zu,+%zu)", op,
                 sz, (size_t)(u - a), o ? o->id : 0, o ? (size_t)((uintptr_t)o->p - a) : 0, o ? o->n : 0);
    }
    void verify(const Blk &b, const char *when)
    {
        long d = first_diff(b.p, b.n, b.fill);
        VP_CHECK(d < 0, "heap_content_changed", "block #%u [arena+%zu,+%zu) changed at byte %ld %s", b.id,
                 (size_t)(b.p - (uint8_t *)_heap_start), b.n, d, when);
    }
    void served(uint8_t *p, char *brk0)
    {
        if ((char *)p < brk0)
        {
            c.label("served_from_freelist");
            c.nontrivial = true;
        }
    }
    void do_malloc(size_t sz, bool via_realloc)
    {
        const char *op = via_realloc ? "realloc(NULL)" : "malloc";
        char *brk0 = brk();
        uint8_t *p = (uint8_t *)(via_realloc ? lin_realloc(nullptr, sz) : lin_malloc(sz));
        note_brk();
        ever = true;
        c.log("%s(%zu)=#%u@%ld ", via_realloc ? "r0" : "m", sz, ids + 1, p ? (long)(p - (uint8_t *)_heap_start) : -1);
        if (!p && sz == 0)
        {
            // ISO C lets a zero-size request answer NULL (this shim does not)
            c.label("null_for_zero_size");
            return;
        }
        check_block(op, p, sz);
        served(p, brk0);
        if (sz == 0)
            c.label("zero_size_block");
        Blk b{p, sz, next_fill(fc), ++ids};
        fill_bytes(p, sz, b.fill);
        live.push_back(b);
        demand += need(sz);
    }
    void do_free(size_t i)
    {
        Blk b = live[i];
        verify(b, "before its free");
        c.log("f#%u ", b.id);
        lin_free(b.p);
        note_brk();
        live.erase(live.begin() + (long)i);
        demand -= need(b.n);
        if (__flp)
            c.label("free_below_top");
    }
    void do_realloc(size_t i, size_t sz)
    {
        Blk b = live[i];
        verify(b, "before its realloc");
        if (sz == 0 && b.n > 0)
        {
            c.label("realloc_to_zero");
            // Known finding: realloc(p, 0) of a non-empty block leaves a
            // zero-size chunk whose free corrupts the next header.
            if (k_zero)
            {
                c.known_hit(K_ZERO);
                c.log("(r#%u,0 skipped) ", b.id);
                return;
            }
        }
        int cnt0 = __allocation_counter;
        char *brk0 = brk();
        uint8_t *q = (uint8_t *)lin_realloc(b.p, sz);
        note_brk();
        c.log("r#%u(%zu->%zu)@%ld ", b.id, b.n, sz, q ? (long)(q - (uint8_t *)_heap_start) : -1);
        if (__allocation_counter < cnt0)
        {
            // Known finding: the shrink path releases the tail through the
            // public free(), which counts it as one more freed allocation; the
            // last free of the history then trips assert(__allocation_counter
            // >= 0). With the finding active the counter is put back, so the
            // shrink-and-split path stays under test.
            c.label("realloc_shrink_drops_counter");
            if (k_shrink)
            {
                c.known_hit(K_SHRINK);
                __allocation_counter = cnt0;
            }
        }
        live.erase(live.begin() + (long)i);
        demand -= need(b.n);
        if (!q && sz == 0)
        {
            // ISO C lets realloc(p, 0) free p and answer NULL (this shim does not)
            c.label("null_for_zero_size");
            return;
        }
        check_block("realloc", q, sz);
        size_t keep = std::min(b.n, sz);
        long d = first_diff(q, keep, b.fill);
        VP_CHECK(d < 0, "heap_realloc_prefix", "realloc #%u %zu->%zu (%s): byte %ld of the common prefix differs", b.id,
                 b.n, sz, q == b.p ? "in place" : "moved", d);
        if (q != b.p)
        {
            c.label("realloc_moved");
            served(q, brk0);
        }
        else if (sz > b.n)
            c.label(brk() != brk0 ? "realloc_extends_top" : "realloc_grows_in_place");
        else if (sz < b.n)
            c.label("realloc_shrinks_in_place");
        Blk nb{q, sz, next_fill(fc), b.id};
        fill_bytes(q, sz, nb.fill);
        live.insert(live.begin() + (long)i, nb);
        demand += need(sz);
    }
    // free everything; the heap must be back where it started
    void finish(Src *s, unsigned order)
    {
        c.log("\n[free all %s, live=%zu] ", ORDER[order], live.size());
        for (auto &b : live)
            verify(b, "at the end of the history");
        while (!live.empty())
            do_free(s ? victim(*s, order, live.size()) : 0);
        VP_CHECK(__flp == nullptr, "heap_freelist_not_empty",
                 "every block is freed but __flp = arena+%ld, __brkval = arena+%ld",
                 (long)((char *)__flp - _heap_start), (long)(brk() - _heap_start));
        VP_CHECK(ever ? __brkval == _heap_start : (__brkval == nullptr || __brkval == _heap_start),
                 "heap_break_not_restored", "every block is freed but __brkval = arena+%ld", (long)(brk() - _heap_start));
    }
};
size_t Heap::dirty = ARENA;

static size_t heap_size(Src &s)
{
    static const std::vector<size_t> special = {0, 1, 7, 8, 9, 15, 16, 17, 24, 31, 63, 64, 65, 127, 128, 129};
    if (s.weighted({3, 2}) == 0)
        return s.pick(special);
    return (size_t)s.range(0, 4096);
}

// Requests of 2 GiB and more (size_t is 64 bits wide on this host; the allocator's arithmetic must be too). The arena
// is a 12 GiB MAP_NORESERVE mapping of which only the chunk headers and a few bytes per block are ever touched. Only
// addresses are compared for the big blocks: inside the arena, no overlap with any other live block, and after freeing
// everything the break is back at the start.
static void heap_huge_target(Src &s, Case &c)
{
    static char *arena = nullptr;
    static const size_t HUGE = 12ull << 30;
    if (!arena)
    {
        void *m = mmap(nullptr, HUGE, PROT_READ | PROT_WRITE, MAP_PRIVATE | MAP_ANONYMOUS | MAP_NORESERVE, -1, 0);
        if (m == MAP_FAILED)
            throw Discard{};
        arena = (char *)m;
    }
    __brkval = nullptr;
    __flp = nullptr;
    __allocation_counter = 0;
    __malloc_heap_start = arena;
    struct B
    {
        char *p;
        size_t sz;
    };
    std::vector<B> live;
    size_t used = 0;
    int n = (int)s.range(2, 6);
    c.log("huge heap: ");
    for (int i = 0; i < n; i++)
    {
        size_t sz;
        switch (s.weighted({3, 3, 1}))
        {
        case 0:
            sz = (size_t)s.pick<uint64_t>({(1ull << 32) - 64, (1ull << 32) - 63, (1ull << 32) - 16, 1ull << 32, (1ull << 32) + 100, (1ull << 31), (1ull << 31) + 1, 5ull << 30,
                                           3ull << 30});
            break;
        case 1:
            sz = (size_t)s.pick({8, 64, 100, 4096});
            break;
        default:
            sz = (size_t)s.range(1, 1 << 20);
        }
        if (used + sz + 4096 > HUGE - (1ull << 20))
            continue;
        char *p = (char *)lin_malloc(sz);
        c.log("malloc(%zu)=arena+%td ", sz, p ? p - arena : (ptrdiff_t)-1);
        VP_CHECK(p != nullptr, "heap_huge_null", "malloc(%zu) returned NULL with %zu bytes in use of a 12 GiB arena", sz, used);
        VP_CHECK(p >= arena && p + sz <= arena + HUGE, "heap_huge_outside", "malloc(%zu) = arena+%td: outside the arena", sz, p - arena);
        VP_CHECK((uintptr_t)p % 8 == 0, "heap_huge_misaligned", "malloc(%zu) = %p", sz, (void *)p);
        for (auto &b : live)
            VP_CHECK(p + sz <= b.p || b.p + b.sz <= p, "heap_huge_overlap", "malloc(%zu) = arena+%td overlaps the live block of %zu bytes at arena+%td", sz, p - arena, b.sz,
                     b.p - arena);
        // first and last byte carry a mark that must survive
        p[0] = (char)(0x40 + (int)live.size());
        if (sz > 1)
            p[sz - 1] = (char)(0x60 + (int)live.size());
        live.push_back(B{p, sz});
        used += sz + 128;
        if (sz >= (1ull << 31))
            c.label("request>=2GiB");
        if (sz >= (1ull << 32) - 64)
            c.label("request_around_4GiB");
    }
    for (size_t i = 0; i < live.size(); i++)
        VP_CHECK(live[i].p[0] == (char)(0x40 + (int)i) && (live[i].sz < 2 || live[i].p[live[i].sz - 1] == (char)(0x60 + (int)i)), "heap_huge_content",
                 "the marks at the ends of block %zu (%zu bytes) changed", i, live[i].sz);
    c.nontrivial = live.size() >= 2;
    // free in a drawn order
    while (!live.empty())
    {
        size_t k = (size_t)s.below(live.size());
        c.log("free(arena+%td) ", live[k].p - arena);
        lin_free(live[k].p);
        live.erase(live.begin() + (long)k);
    }
    VP_CHECK(__flp == nullptr && (__brkval == nullptr || __brkval == arena), "heap_huge_break", "everything freed but __flp=%p, __brkval = arena+%td", (void *)__flp,
             __brkval ? __brkval - arena : (ptrdiff_t)0);
    // leave the allocator pointing at the ordinary arena again
    __brkval = nullptr;
    __flp = nullptr;
    __allocation_counter = 0;
    __malloc_heap_start = _heap_start;
}
VP_TARGET("heap_huge", heap_huge_target,
          "malloc/free on a 12 GiB (MAP_NORESERVE) arena: 2..6 requests from {2^31, 2^31+1, 3 GiB, 2^32-64, 2^32-63, 2^32-16, 2^32, 2^32+100, 5 GiB}, small sizes and 1..2^20, "
          "freed in a drawn order: non-null, inside the arena, 8-aligned, no overlap with any live block (addresses only), marks at both ends intact, break restored");

static void heap_target(Src &s, Case &c)
{
    Heap h(c);
    // the history lasts as long as the choice sequence does (at most 300
    // steps), so a truncated sequence is a shorter history
    const size_t steps = 300;
    unsigned order = (unsigned)s.below(4);
    unsigned final_order = (unsigned)s.below(3);
    c.log("heap free_order=%s\n", ORDER[order]);
    c.label(final_order == 0 ? "final_lifo" : final_order == 1 ? "final_fifo" : "final_random");
    for (size_t k = 0; k < steps && !s.exhausted(); k++)
    {
        size_t op = s.weighted({4, 3, 3, 1, 1});
        if (op == 3)
        {
            c.log("f(NULL) ");
            lin_free(nullptr);
            continue;
        }
        if (h.live.empty() && (op == 1 || op == 2))
            op = 0;
        if (op == 0 || op == 4)
        {
            size_t sz = heap_size(s);
            if (h.live.size() < MAX_LIVE && h.fits(sz))
            {
                h.do_malloc(sz, op == 4);
                continue;
            }
            // the caller's side of the contract: stay below the live-block
            // limit and inside the arena -> free something instead
            c.label(h.live.size() >= MAX_LIVE ? "at_live_limit" : "at_demand_limit");
            op = 1;
        }
        if (op == 1)
        {
            h.do_free(victim(s, order, h.live.size()));
            continue;
        }
        // realloc: an absolute size, or one near the block's current size (the
        // shrink/keep boundary is sizeof(struct __freelist) below it)
        size_t vi = victim(s, order, h.live.size());
        size_t sz;
        if (s.coin())
            sz = heap_size(s);
        else
        {
            static const int delta[] = {0, 1, -1, 8, -8, 16, -16, 17, -17, 64, -64, 72, -72, 128, -128, 4096};
            long v = (long)h.live[vi].n + delta[s.below(16)];
            sz = (size_t)std::min<long>(4096, std::max<long>(0, v));
        }
        if (h.fits(sz))
            h.do_realloc(vi, sz);
        else
        {
            c.label("at_demand_limit");
            h.do_free(vi);
        }
    }
    h.finish(&s, final_order);
}
VP_TARGET("heap", heap_target,
          "up to 300 steps of malloc(sz) / free(i) / realloc(i,sz) / free(NULL) / realloc(NULL,sz) on a 256 KiB arena, "
          "sizes from {0,1,7,8,9,15,16,17,24,31,63,64,65,127,128,129}, uniform 0..4096, or the block's size +- "
          "{0,1,8,16,17,64,72,128}; <= 90 live blocks, live demand <= half the arena; victims LIFO/FIFO/random/mixed; "
          "then free everything LIFO/FIFO/random; non-trivial = some malloc/realloc was served from the free list "
          "(returned address below the break)");

// ---- exhaustive. Per step a pair (slot, a): an empty slot -> malloc of
// {8,64,200,0}[a]; a full slot -> realloc to {8,64,200}[a] or, a == 3, free.
// Afterwards the remaining blocks are freed in slot order. Two spaces:
//   A: 4 block slots (16 operations per step), every length <= 5 (quick) / <= 6 (thorough)
//   B: 3 block slots (12 operations per step), length exactly 6 (quick) / 7 (thorough)
// so every history of length <= 7 over 3 slots and <= 6 over 4 slots is run in
// the thorough tier.
static uint64_t ipow(uint64_t b, int e)
{
    uint64_t r = 1;
    while (e-- > 0)
        r *= b;
    return r;
}
static int enum_len_a(int tier) { return tier ? 6 : 5; }
static uint64_t enum_size_a(int tier)
{
    uint64_t t = 0;
    for (int l = 0; l <= enum_len_a(tier); l++)
        t += ipow(16, l);
    return t;
}
static unsigned __int128 heap_enum_size(int tier) { return enum_size_a(tier) + ipow(12, enum_len_a(tier) + 1); }
static void heap_enum_target(Src &s, Case &c)
{
    uint64_t k = s.below((uint64_t)heap_enum_size(tier()));
    int len = 0;
    unsigned radix = 16;
    if (k < enum_size_a(tier()))
    {
        for (uint64_t p = 1; k >= p; p *= 16)
        {
            k -= p;
            len++;
        }
        c.label("4_slots");
    }
    else
    {
        k -= enum_size_a(tier());
        len = enum_len_a(tier()) + 1;
        radix = 12;
        c.label("3_slots");
    }
    static const size_t SZ[4] = {8, 64, 200, 0};
    Heap h(c);
    unsigned slot[4] = {0, 0, 0, 0}; // block id, 0 = empty
    c.log("enum slots=%u len=%d\n", radix / 4, len);
    for (int i = 0; i < len; i++)
    {
        unsigned d = (unsigned)(k % radix);
        k /= radix;
        unsigned j = d / 4, a = d % 4;
        c.log("s%u:", j);
        if (!slot[j])
        {
            unsigned before = h.ids;
            h.do_malloc(SZ[a], false);
            if (h.ids != before)
                slot[j] = h.ids;
        }
        else if (a == 3)
        {
            h.do_free((size_t)h.find(slot[j]));
            slot[j] = 0;
        }
        else
        {
            h.do_realloc((size_t)h.find(slot[j]), SZ[a]);
            if (h.find(slot[j]) < 0)
                slot[j] = 0;
        }
    }
    h.finish(nullptr, 1);
}
VP_TARGET("heap_enum", heap_enum_target,
          "exhaustive: every history of length <= 5 (quick) / <= 6 (thorough) over 4 block slots and every history of "
          "length 6 (quick) / 7 (thorough) over 3 block slots; per step and slot: malloc 8/64/200/0 into an empty "
          "slot, realloc to 8/64/200 or free of a full one; then the rest is freed in slot order; non-trivial = "
          "served from the free list",
          heap_enum_size);
