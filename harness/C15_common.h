// C15 — line editor and terminal deliver exactly what a reference editor would.
//
// Shared between C15.cpp (vterm.c + readline.h, and the sline targets) and C15_xx.cpp
// (vtermxx.cpp + readlinexx.h: the C and the C++ readline/vterm headers share their
// include guards, so the two terminals cannot meet in one translation unit):
//   * RefEditor — the reference key semantics of DESIGN.md §5 C15, one byte at a time;
//   * Screen    — a one-row VT100 model fed with the bytes of the write callback;
//   * Sink      — what the callbacks recorded (they run under C frames: they never throw);
//   * run_terminal<Term> — generator (random / mixed-radix enumeration), lock-step run,
//     and the checks after every byte.
#pragma once
#include "vpbt.h"
#include <cstring>
#include <string>
#include <vector>

namespace c15
{
    using namespace vpbt;

    // known-finding slugs (see the report / known_findings.json)
    constexpr const char *K_ECHO = "C15-echo-refused-char";       // full line: refused character still echoed
    constexpr const char *K_RECALL = "C15-recall-left-by-length"; // history recall with the cursor inside the line
    constexpr const char *K_PAIR = "C15-crlf-pair-reset";         // CR LF CR: the third byte is swallowed too
    constexpr const char *K_NEWDATA = "C15-newdata-clamp";        // sline_newdata fills all cap bytes

    constexpr uint8_t BS = 0x08, ESC = 0x1B, CR = '\r', LF = '\n', CTRL_C = 0x03;
    constexpr const char *PROMPT = "$ "; // what vterm_automate_init / vtermxx::init install
    constexpr size_t PROMPT_LEN = 2;

    inline bool is_text(uint8_t c) { return c >= 0x20 && c <= 0x7E; }

    // ------------------------------------------------------------------ Screen
    // One row of a VT100, wide enough never to wrap. Understands printable bytes, CR, LF,
    // ESC[nD, ESC[nC, ESC[D, ESC[C, ESC[K (a parameter 0 or none means 1 for C/D, "to the end
    // of the line" for K). LF moves to a fresh (blank) row and keeps the column. Blank cells
    // are spaces. Anything else is latched as a protocol error (never thrown: put() runs
    // inside the write callback, i.e. under C frames).
    struct Screen
    {
        static constexpr size_t W = 512;
        std::string row = std::string(W, ' ');
        size_t col = 0;
        int st = 0; // 0 ground, 1 after ESC, 2 after ESC[
        unsigned num = 0;
        bool havenum = false;
        std::string err;

        void fail(const char *what, uint8_t ch)
        {
            if (err.empty())
                err = fmt("%s (byte 0x%02x at column %zu)", what, ch, col);
            st = 0;
        }
        void put(uint8_t ch)
        {
            switch (st)
            {
            case 0:
                if (is_text(ch))
                {
                    row[col] = (char)ch;
                    if (col < W - 1)
                        col++;
                }
                else if (ch == CR)
                    col = 0;
                else if (ch == LF)
                    row.assign(W, ' ');
                else if (ch == ESC)
                    st = 1;
                else
                    fail("byte the screen model does not understand", ch);
                break;
            case 1:
                if (ch == '[')
                {
                    st = 2;
                    num = 0;
                    havenum = false;
                }
                else
                    fail("ESC not followed by '['", ch);
                break;
            default:
                if (ch >= '0' && ch <= '9')
                {
                    havenum = true;
                    if (num < 100000)
                        num = num * 10 + (unsigned)(ch - '0');
                    break;
                }
                st = 0;
                {
                    size_t n = havenum && num ? num : 1;
                    if (ch == 'D')
                        col = n > col ? 0 : col - n;
                    else if (ch == 'C')
                        col = col + n > W - 1 ? W - 1 : col + n;
                    else if (ch == 'K' && (!havenum || num == 0))
                    {
                        for (size_t i = col; i < W; i++)
                            row[i] = ' ';
                    }
                    else
                        fail("control sequence the screen model does not understand", ch);
                }
            }
        }
        std::string shown() const
        {
            size_t e = row.find_last_not_of(' ');
            return e == std::string::npos ? std::string() : row.substr(0, e + 1);
        }
        bool shows(const std::string &text) const
        {
            if (text.size() > W)
                return false;
            return row.compare(0, text.size(), text) == 0 && row.find_first_not_of(' ', text.size()) == std::string::npos;
        }
        void resync(const std::string &text, size_t c)
        {
            row.assign(W, ' ');
            row.replace(0, text.size(), text);
            col = c;
            st = 0;
        }
    };

    // ------------------------------------------------------------------ Sink
    struct ExecRec
    {
        std::string text; // the `len` bytes handed to the callback
        unsigned len;
        bool terminated; // line[len] == 0
    };
    struct Sink
    {
        Screen scr;
        std::vector<ExecRec> execs;
        std::vector<int> signals;
        size_t written = 0;
        std::string priv_err; // a callback was handed another callback's private pointer

        void on_write(const char *p, unsigned n)
        {
            for (unsigned i = 0; i < n; i++)
                scr.put((uint8_t)p[i]);
            written += n;
        }
        void on_exec(const char *line, unsigned len)
        {
            ExecRec r;
            r.text.assign(line, len); // reads exactly len bytes: ASan faults if that leaves the buffer
            r.len = len;
            r.terminated = line[len] == 0;
            execs.push_back(r);
        }
        void on_signal(int sig) { signals.push_back(sig); }
    };

    // ------------------------------------------------------------------ RefEditor
    // The reference key semantics (DESIGN.md §5 C15), derived from the comments and the
    // structure of readline.h / vterm.c. `cap` bytes hold cap-1 characters.
    enum EvKind
    {
        EV_NONE,      // part of an escape sequence / swallowed byte / key without effect
        EV_INSERT,    // printable character inserted at the cursor
        EV_REFUSED,   // printable character typed into a full line: ignored
        EV_BACKSPACE, // character before the cursor removed
        EV_DELETE,    // character under the cursor removed
        EV_LEFT,
        EV_RIGHT,
        EV_RECALL,    // history up/down replaced the line
        EV_NEWLINE,   // line handed to execute, fresh prompt
        EV_PAIR_HALF, // second half of a CR LF / LF CR pair: swallowed
        EV_CTRLC
    };
    inline const char *ev_name(EvKind e)
    {
        static const char *const n[] = {"none", "insert", "refused_char", "backspace", "delete", "left", "right", "recall", "newline", "pair_half", "ctrl_c"};
        return n[e];
    }

    struct RefEditor
    {
        unsigned cap, H;
        std::string line;
        size_t cur = 0;
        std::vector<std::string> ring; // H history slots, initially empty
        unsigned head = 0;             // slot the next stored line goes to
        unsigned browse = 0;           // 0 = the line being typed, k = k-th most recent slot
        unsigned stored = 0;           // lines stored so far (saturates at H)
        int esc = 0;                   // 0 normal, 1 after ESC, 2 after ESC [, 3 after ESC [ 3
        uint8_t last = 0;              // previous byte the key automaton saw; 0 after a swallowed pair half
        uint8_t pair_swallowed = 0;    // the previous automaton byte was this swallowed pair half
        std::vector<std::string> execs;
        unsigned signals = 0;
        // non-trivial rule
        bool nt_mid_edit = false, nt_recall2 = false, nt_full = false;

        RefEditor(unsigned cap_, unsigned H_) : cap(cap_), H(H_), ring(H_) {}

        const std::string &slot(unsigned k) const { return ring[(head + H - k) % H]; }

        // --- input classes of the findings, decided before the byte is applied
        bool would_refuse(uint8_t c) const { return c != CTRL_C && esc == 0 && is_text(c) && line.size() >= cap - 1; }
        bool would_recall(uint8_t c) const { return c != CTRL_C && esc == 2 && ((c == 'A' && browse < H) || (c == 'B' && browse > 0)); }
        // an end-of-line byte right after a swallowed pair half of the other kind (CR LF *CR*)
        bool after_pair_half(uint8_t c) const { return esc == 0 && (c == CR || c == LF) && pair_swallowed && pair_swallowed != c; }

        EvKind step(uint8_t c)
        {
            if (c == CTRL_C)
            {
                // seen by the terminal before the key automaton: escape state and pairing are untouched
                line.clear();
                cur = 0;
                browse = 0;
                signals++;
                return EV_CTRLC;
            }
            pair_swallowed = 0;
            uint8_t prev = last;
            last = c;
            switch (esc)
            {
            case 0:
                if (c == CR || c == LF)
                {
                    if ((prev == CR || prev == LF) && prev != c)
                    {
                        last = 0; // swallowed once: the next CR/LF is an end of line again
                        pair_swallowed = c;
                        return EV_PAIR_HALF;
                    }
                    if (!line.empty() && line != slot(1))
                    {
                        ring[head] = line;
                        head = (head + 1) % H;
                        if (stored < H)
                            stored++;
                    }
                    browse = 0;
                    execs.push_back(line);
                    line.clear();
                    cur = 0;
                    return EV_NEWLINE;
                }
                if (c == BS)
                {
                    if (cur == 0)
                        return EV_NONE;
                    if (cur < line.size())
                        nt_mid_edit = true;
                    line.erase(--cur, 1);
                    return EV_BACKSPACE;
                }
                if (c == ESC)
                {
                    esc = 1;
                    return EV_NONE;
                }
                if (line.size() >= cap - 1)
                {
                    nt_full = true;
                    return EV_REFUSED;
                }
                if (cur < line.size())
                    nt_mid_edit = true;
                line.insert(cur++, 1, (char)c);
                return EV_INSERT;
            case 1:
                esc = c == '[' ? 2 : 0;
                return EV_NONE;
            case 2:
                esc = 0;
                switch (c)
                {
                case 'A':
                    if (browse >= H)
                        return EV_NONE;
                    browse++;
                    if (stored >= 2)
                        nt_recall2 = true;
                    line = slot(browse);
                    cur = line.size();
                    return EV_RECALL;
                case 'B':
                    if (browse == 0)
                        return EV_NONE;
                    browse--;
                    if (stored >= 2)
                        nt_recall2 = true;
                    line = browse ? slot(browse) : std::string();
                    cur = line.size();
                    return EV_RECALL;
                case 'C':
                    if (cur == line.size())
                        return EV_NONE;
                    cur++;
                    return EV_RIGHT;
                case 'D':
                    if (cur == 0)
                        return EV_NONE;
                    cur--;
                    return EV_LEFT;
                case '3':
                    esc = 3; // the next byte ('~') is swallowed
                    if (cur == line.size())
                        return EV_NONE;
                    nt_mid_edit = true;
                    line.erase(cur, 1);
                    return EV_DELETE;
                }
                return EV_NONE;
            default:
                esc = 0;
                return EV_NONE;
            }
        }
    };

    // ------------------------------------------------------------------ keys
    struct Key
    {
        std::string bytes;
        std::string name;
    };
    inline Key text_key(uint8_t ch)
    {
        Key k;
        k.bytes.assign(1, (char)ch);
        if (ch == ' ')
            k.name = "SP";
        else
            k.name.assign(1, (char)ch);
        return k;
    }
    inline Key K(const char *bytes, const char *name) { return Key{bytes, name}; }

    // the 12 atomic keys of the exhaustive part
    inline Key atomic_key(unsigned i)
    {
        switch (i)
        {
        case 0:
            return text_key('a');
        case 1:
            return text_key('b');
        case 2:
            return K("\x08", "BS");
        case 3:
            return K("\x1b[D", "LEFT");
        case 4:
            return K("\x1b[C", "RIGHT");
        case 5:
            return K("\x1b[3~", "DEL");
        case 6:
            return K("\x1b[A", "UP");
        case 7:
            return K("\x1b[B", "DOWN");
        case 8:
            return K("\r", "CR");
        case 9:
            return K("\n", "LF");
        case 10:
            return K("\x03", "^C");
        default:
            return K("\x1bx", "ESC-x");
        }
    }
    constexpr unsigned kAtomic = 12;

    inline Key random_key(Src &s)
    {
        switch (s.weighted({12, 3, 3, 2, 2, 3, 2, 2, 2, 2, 1, 1, 1, 1}))
        {
        case 0:
            switch (s.weighted({4, 3, 1, 1, 1, 1}))
            {
            case 0:
                return text_key('a');
            case 1:
                return text_key('b');
            case 2:
                return text_key('c');
            case 3:
                return text_key(' ');
            case 4:
                // characters that are the tails of escape sequences: as text they are just text
                return text_key((uint8_t)s.pick({'[', '~', '3', 'A', 'B', 'C', 'D', 'x', 'Z'}));
            default:
                return text_key((uint8_t)s.range(0x20, 0x7E));
            }
        case 1:
            return atomic_key(2);
        case 2:
            return atomic_key(3);
        case 3:
            return atomic_key(4);
        case 4:
            return atomic_key(5);
        case 5:
            return atomic_key(6);
        case 6:
            return atomic_key(7);
        case 7:
            return atomic_key(8);
        case 8:
            return atomic_key(9);
        case 9:
            return K("\r\n", "CRLF");
        case 10:
            return K("\n\r", "LFCR");
        case 11:
            return atomic_key(10);
        case 12:
            switch (s.below(3))
            {
            case 0:
            {
                Key k = K("\x1b", "ESC-");
                char x = s.pick({'x', 'O', 'A', '3', 'a'});
                k.bytes += x;
                k.name += x;
                return k;
            }
            case 1:
            {
                Key k = K("\x1b[", "ESC[");
                char x = s.pick({'Z', 'H', 'F', '1', '~', 'a'});
                k.bytes += x;
                k.name += x;
                return k;
            }
            default:
            {
                Key k = K("\x1b[3", "ESC[3");
                char x = s.pick({'x', 'a', '3', 'A', '['});
                k.bytes += x;
                k.name += x;
                return k;
            }
            }
        default:
            return K("\x1b", "ESC"); // a lone ESC: whatever key follows is its tail
        }
    }

    // number of cases of the exhaustive part: all sequences of <= L atomic keys x 4 capacities x 2 depths
    inline int enum_maxlen(int tier) { return tier ? 7 : 5; }
    inline unsigned __int128 term_enum_size(int tier)
    {
        unsigned __int128 t = 0, p = 1;
        for (int l = 0; l <= enum_maxlen(tier); l++)
        {
            t += p;
            p *= kAtomic;
        }
        return t * 8;
    }

    // ------------------------------------------------------------------ run_terminal
    // Term: Term(cap, H, Sink*), feed(int16_t) (one newdata call), size(), cursor(), content()
    // (the `size()` characters of the edit buffer), extra_check(ref, ev, c) (target specific).
    // `enumerate`: 0 random histories, 1 mixed-radix enumeration, 2 long lines (capacity 250..262: one bulk key
    // fills the line up to around its capacity, so cursor and length pass 255, between a few short lines and
    // a few random keys)
    // the bounded copy-out accessor (readline_linecpy / readline::linecpy): min(length, maxlen-1) characters, a terminator
    // behind them, nothing further, for destinations shorter than, as long as and longer than the line
    template <class F> void check_linecpy(const std::string &line, F call, const char *when)
    {
        const size_t L = line.size();
        const size_t sizes[] = {1, 2, L ? L : 1, L + 1, L + 2, L / 2 + 1};
        for (size_t maxlen : sizes)
        {
            vpbt::Exact dst(maxlen);
            memset(dst.p, 0xEE, maxlen);
            int r = call(dst.c(), maxlen);
            size_t want = std::min(L, maxlen - 1);
            VP_CHECK(r == (int)want, "linecpy_return", "%s: linecpy into %zu bytes returned %d, the line has %zu characters", when, maxlen, r, L);
            VP_CHECK(memcmp(dst.p, line.data(), want) == 0 && dst.p[want] == 0, "linecpy_content", "%s: linecpy into %zu bytes: %s, want the first %zu characters of \"%s\" and a NUL",
                     when, maxlen, vpbt::hexdump(dst.p, maxlen, 24).c_str(), want, line.c_str());
            for (size_t i = want + 1; i < maxlen; i++)
                VP_CHECK(dst.p[i] == 0xEE, "linecpy_wrote_further", "%s: linecpy into %zu bytes changed byte %zu behind the terminator", when, maxlen, i);
        }
    }

    template <class Term> void run_terminal(Src &s, Case &c, int enumerate, const char *name)
    {
        unsigned cap, H;
        std::vector<Key> keys;
        // mode 3: a first session on the same terminal object (lines entered, history filled), then init() again with another
        // capacity / history depth and the session proper; mode 4: echo switched off (a password prompt)
        unsigned cap0 = 0, H0 = 0;
        std::vector<Key> keys0;
        const bool silent = enumerate == 4;
        if (enumerate == 3)
        {
            cap0 = (unsigned)s.range(2, 24);
            H0 = (unsigned)s.range(1, 8);
            size_t lines = (size_t)s.range(0, 10);
            for (size_t i = 0; i < lines; i++)
            {
                size_t l = (size_t)s.range(0, 4);
                for (size_t j = 0; j < l; j++)
                    keys0.push_back(s.below(6) ? text_key((uint8_t)s.pick({'a', 'b', 'c'})) : random_key(s));
                keys0.push_back(atomic_key(8));
            }
            for (size_t i = s.below(4); i > 0; i--)
                keys0.push_back(random_key(s)); // the first session may end inside a line / a recall / an escape
            cap = (unsigned)s.range(2, 24);
            H = (unsigned)s.range(1, 8);
            size_t n = (size_t)s.range(0, 40);
            for (size_t i = 0; i < n; i++)
                keys.push_back(random_key(s));
        }
        else if (enumerate == 2)
        {
            cap = (unsigned)s.range(250, 262);
            H = (unsigned)s.range(1, 3);
            size_t pre = (size_t)s.below(3);
            for (size_t i = 0; i < pre; i++)
            {
                size_t l = (size_t)s.range(1, 3);
                for (size_t j = 0; j < l; j++)
                    keys.push_back(text_key((uint8_t)s.pick({'a', 'b', 'c'})));
                keys.push_back(atomic_key(8));
            }
            size_t n = (size_t)s.range((int64_t)cap - 8, (int64_t)cap + 1);
            char ch = s.pick({'x', 'y', 'a'});
            keys.push_back(Key{std::string(n, ch), fmt("%c*%zu", ch, n)});
            size_t m = (size_t)s.range(0, 10);
            for (size_t i = 0; i < m; i++)
                keys.push_back(random_key(s));
        }
        else if (enumerate == 1)
        {
            static const unsigned caps[4] = {2, 3, 4, 8};
            uint64_t k = s.below((uint64_t)term_enum_size(tier()));
            cap = caps[k % 4];
            k /= 4;
            H = 1 + (unsigned)(k % 2);
            k /= 2;
            unsigned n = 0;
            uint64_t p = 1;
            while (k >= p)
            {
                k -= p;
                p *= kAtomic;
                n++;
            }
            for (unsigned i = 0; i < n; i++)
            {
                keys.push_back(atomic_key((unsigned)(k % kAtomic)));
                k /= kAtomic;
            }
        }
        else
        {
            cap = (unsigned)(s.weighted({3, 1}) == 0 ? s.range(2, 6) : s.range(2, 24));
            H = (unsigned)s.range(1, 4);
            size_t n = (size_t)(s.weighted({3, 1}) == 0 ? s.range(0, 24) : s.range(0, 120));
            for (size_t i = 0; i < n; i++)
                keys.push_back(random_key(s));
        }
        if (enumerate == 3)
            c.log("%s first session cap=%u hist=%u, then init() again with cap=%u hist=%u:", name, cap0, H0, cap, H);
        else
            c.log("%s cap=%u hist=%u%s:", name, cap, H, silent ? " echo off" : "");

        const bool k_echo = known_active(K_ECHO), k_recall = known_active(K_RECALL), k_pair = known_active(K_PAIR);

        // On a failure everything is deliberately leaked: no destructor runs over buffers an
        // earlier step may have overrun (the worker exits anyway).
        Sink *sink = new Sink;
        const bool two = enumerate == 3;
        const unsigned cap1 = cap, H1 = H;
        const std::vector<Key> keys1 = keys;
        RefEditor *refp = new RefEditor(two ? cap0 : cap1, two ? H0 : H1);
        Term *term = new Term(two ? cap0 : cap1, two ? H0 : H1, sink);
        if (silent)
            term->set_echo(false);
        bool saw_ctrlc = false, saw_pair = false, saw_recall = false;
        size_t nbytes = 0;
        for (int session = two ? 0 : 1; session < 2; session++)
        {
        // the running session's configuration (shadows the generated one)
        const unsigned cap = session == 0 ? cap0 : cap1, H = session == 0 ? H0 : H1;
        const std::vector<Key> &keys = session == 0 ? keys0 : keys1;
        if (two && session == 1)
        {
            // the same terminal object starts over: new capacity, new history depth, nothing of the first session left
            c.log(" | init(%u,%u):", cap, H);
            delete refp;
            refp = new RefEditor(cap, H);
            delete sink;
            sink = new Sink;
            term->reinit(cap, H, sink);
        }
        (void)H;
        RefEditor &ref = *refp;

        auto expected_row = [&]() { return std::string(PROMPT) + ref.line; };
        auto check = [&](EvKind ev, const char *when) {
            // callbacks
            VP_CHECK(sink->execs.size() >= ref.execs.size(), "exec_missing",
                     "%s: %zu execute callbacks so far, the reference editor has delivered %zu lines (last \"%s\")", when, sink->execs.size(),
                     ref.execs.size(), ref.execs.empty() ? "" : ref.execs.back().c_str());
            VP_CHECK(sink->execs.size() == ref.execs.size(), "exec_extra", "%s: %zu execute callbacks so far, the reference editor has delivered %zu lines; extra \"%s\"",
                     when, sink->execs.size(), ref.execs.size(), sink->execs.back().text.c_str());
            if (ev == EV_NEWLINE)
            {
                const ExecRec &g = sink->execs.back();
                const std::string &w = ref.execs.back();
                VP_CHECK(g.len == w.size() && g.text == w, "exec_line", "%s: execute callback got \"%s\" (length %u), reference line \"%s\" (length %zu)", when,
                         g.text.c_str(), g.len, w.c_str(), w.size());
                VP_CHECK(g.terminated, "exec_unterminated", "%s: line[%u] handed to the execute callback is not NUL", when, g.len);
            }
            VP_CHECK(sink->priv_err.empty(), "callback_privdata", "%s: %s", when, sink->priv_err.c_str());
            VP_CHECK(sink->signals.size() == ref.signals, "signal_count", "%s: %zu signal callbacks, reference %u", when, sink->signals.size(), ref.signals);
            if (ev == EV_CTRLC)
                VP_CHECK(sink->signals.back() == 2, "signal_value", "%s: Ctrl-C delivered signal %d, expected SIGINT (2)", when, sink->signals.back());
            // bounds and content through the accessors
            long len = term->size(), cur = term->cursor();
            VP_CHECK(0 <= cur && cur <= len && len < (long)cap, "line_bounds", "%s: cursor=%ld length=%ld capacity=%u", when, cur, len, cap);
            VP_CHECK((size_t)len == ref.line.size() && term->content() == ref.line, "line_content", "%s: edit buffer \"%s\" (length %ld), reference \"%s\"", when,
                     term->content().c_str(), len, ref.line.c_str());
            VP_CHECK((size_t)cur == ref.cur, "line_cursor", "%s: cursor=%ld, reference %zu (line \"%s\")", when, cur, ref.cur, ref.line.c_str());
            term->extra_check(ref, ev, when);
            if (silent)
            {
                VP_CHECK(sink->written == 0, "echo_off_output", "%s: echo is off, yet %zu bytes were written to the terminal (screen \"%s\")", when, sink->written,
                         sink->scr.shown().c_str());
                return;
            }
            // screen
            VP_CHECK(sink->scr.err.empty(), "screen_protocol", "%s: %s", when, sink->scr.err.c_str());
            std::string want = expected_row();
            if (!sink->scr.shows(want) || sink->scr.col != PROMPT_LEN + ref.cur)
            {
                std::string sig = std::string("screen_after_") + ev_name(ev);
                VP_FAIL(sig, "%s: screen shows \"%s\" cursor column %zu; reference \"%s\" cursor column %zu", when, sink->scr.shown().c_str(), sink->scr.col,
                        want.c_str(), PROMPT_LEN + ref.cur);
            }
        };

        term->feed(-1); // init step: prints the prompt
        check(EV_NONE, "after the init step");

        for (size_t i = 0; i < keys.size(); i++)
        {
            c.log(" %s", keys[i].name.c_str());
            for (size_t j = 0; j < keys[i].bytes.size(); j++)
            {
                uint8_t b = (uint8_t)keys[i].bytes[j];
                if (k_pair && ref.after_pair_half(b))
                {
                    // excluded by construction: the byte is not typed at all
                    c.known_hit(K_PAIR);
                    c.log("[skipped]");
                    continue;
                }
                bool forgive_screen = false;
                const char *slug = nullptr;
                if (k_echo && ref.would_refuse(b))
                {
                    forgive_screen = true;
                    slug = K_ECHO;
                }
                else if (k_recall && ref.would_recall(b) && ref.cur != ref.line.size())
                {
                    forgive_screen = true;
                    slug = K_RECALL;
                }
                term->feed((int16_t)b);
                term->feed(-1); // idle step (the C++ terminal prints the new prompt here)
                EvKind ev = ref.step(b);
                nbytes++;
                if (forgive_screen && sink->scr.err.empty() && (!sink->scr.shows(expected_row()) || sink->scr.col != PROMPT_LEN + ref.cur))
                {
                    // the finding concerns the echo only: line, cursor and callbacks are still checked
                    c.known_hit(slug);
                    sink->scr.resync(expected_row(), PROMPT_LEN + ref.cur);
                }
                if (ev == EV_CTRLC)
                    saw_ctrlc = true;
                if (ev == EV_PAIR_HALF)
                    saw_pair = true;
                if (ev == EV_RECALL)
                    saw_recall = true;
                try
                {
                    check(ev, "");
                }
                catch (Fail &f)
                {
                    f.msg = fmt("key %zu (%s) byte %zu", i + 1, keys[i].name.c_str(), j + 1) + f.msg;
                    throw;
                }
            }
        }

        if (session == 0)
            continue;
        c.nontrivial = ref.nt_mid_edit || ref.nt_recall2 || ref.nt_full;
        if (ref.nt_mid_edit)
            c.label("edit_inside_line");
        if (ref.nt_recall2)
            c.label("recall_after_2_lines");
        if (ref.nt_full)
            c.label("typed_into_full_line");
        if (saw_ctrlc)
            c.label("ctrl_c");
        if (saw_pair)
            c.label("crlf_pair");
        if (saw_recall)
            c.label("recall");
        if (ref.execs.size() >= 2)
            c.label("two_lines_executed");
        }
        (void)nbytes;
        delete term;
        delete refp;
        delete sink;
    }
}
