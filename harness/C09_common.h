// C09 — shared between C09.cpp (archive.h + stdtypes.h) and C09_s20.cpp
// (serializer.h + binary_protocol + storages). Nothing in here includes or
// calls igris: generic value generators, bitwise equality, a printer, the
// *independent reference encoder* written from the property statement, the
// reflectable harness structs and the committed golden-bytes table.
//
// Wire layout per the statement (C09 in properties.jsonl / DESIGN §5):
//   scalar            = its fixed-width native-endian image
//   string / buffer   = u16 length + bytes
//   vector / map      = u16 count + elements (map: key,value pairs in key order)
//   pair/tuple/struct = members in declaration order, nothing in between
#pragma once
#include "vpbt.h"
#include <bit>
#include <cstdint>
#include <cstring>
#include <map>
#include <string>
#include <tuple>
#include <type_traits>
#include <utility>
#include <vector>

namespace c09
{
using vpbt::Case;
using vpbt::Exact;
using vpbt::Src;

static_assert(std::endian::native == std::endian::little,
              "the committed golden bytes are the little-endian images (native order of the checked host)");

// -------------------------------------------------------------- type shapes
template <class T> struct is_vec : std::false_type
{
};
template <class E, class A> struct is_vec<std::vector<E, A>> : std::true_type
{
};
template <class T> struct is_map : std::false_type
{
};
template <class K, class V, class C, class A> struct is_map<std::map<K, V, C, A>> : std::true_type
{
};
template <class T> struct is_pair : std::false_type
{
};
template <class A, class B> struct is_pair<std::pair<A, B>> : std::true_type
{
};
template <class T> struct is_tup : std::false_type
{
};
template <class... A> struct is_tup<std::tuple<A...>> : std::true_type
{
};
template <class T>
concept Struct = requires(T &t) { t.tie(); };
template <class T> inline constexpr bool is_str = std::is_same_v<T, std::string>;
template <class T> inline constexpr bool is_scalar = std::is_arithmetic_v<T>;

// ------------------------------------------------ reflectable harness structs
// Written the way a user of igris writes them: `reflect` for archive.h,
// `serialize_reflect` for serializer.h (const + non-const: the serializer calls
// it on a const object, the deserializer on a mutable one). tie() is only for
// the harness' own generic code.
struct SA // flat, with padding between b and c and after c when laid out natively
{
    int32_t a = 0;
    uint8_t b = 0;
    int16_t c = 0;
    auto tie() { return std::tie(a, b, c); }
    auto tie() const { return std::tie(a, b, c); }
    template <class R> void reflect(R &r)
    {
        r &a;
        r &b;
        r &c;
    }
    template <class R> void serialize_reflect(R &r)
    {
        r &a;
        r &b;
        r &c;
    }
    template <class R> void serialize_reflect(R &r) const
    {
        r &a;
        r &b;
        r &c;
    }
};
struct SB // scalars around a vector of scalars
{
    uint8_t tag = 0;
    std::vector<int32_t> v;
    double d = 0;
    float f = 0;
    auto tie() { return std::tie(tag, v, d, f); }
    auto tie() const { return std::tie(tag, v, d, f); }
    template <class R> void reflect(R &r)
    {
        r &tag;
        r &v;
        r &d;
        r &f;
    }
    template <class R> void serialize_reflect(R &r)
    {
        r &tag;
        r &v;
        r &d;
        r &f;
    }
    template <class R> void serialize_reflect(R &r) const
    {
        r &tag;
        r &v;
        r &d;
        r &f;
    }
};
struct SC // nests a vector of another struct and a struct: depth 3
{
    uint16_t id = 0;
    std::vector<SA> items;
    SB b;
    int64_t tail = 0;
    auto tie() { return std::tie(id, items, b, tail); }
    auto tie() const { return std::tie(id, items, b, tail); }
    template <class R> void reflect(R &r)
    {
        r &id;
        r &items;
        r &b;
        r &tail;
    }
    template <class R> void serialize_reflect(R &r)
    {
        r &id;
        r &items;
        r &b;
        r &tail;
    }
    template <class R> void serialize_reflect(R &r) const
    {
        r &id;
        r &items;
        r &b;
        r &tail;
    }
};
struct SD // strings, map, pair, tuple as members (archive system only)
{
    std::string name;
    std::map<std::string, int32_t> m;
    std::pair<int8_t, int32_t> p{0, 0};
    std::tuple<uint8_t, std::string> t{0, ""};
    uint32_t crc = 0;
    auto tie() { return std::tie(name, m, p, t, crc); }
    auto tie() const { return std::tie(name, m, p, t, crc); }
    template <class R> void reflect(R &r)
    {
        r &name;
        r &m;
        r &p;
        r &t;
        r &crc;
    }
};

// User types whose default-constructed state is not empty (default member initialisers, as a configuration record
// has them): deserialize<T>() starts from such an object, so every member has to be *replaced* by the decoded one.
struct SE // archive system
{
    std::string name = "dflt";
    std::vector<int16_t> v{1, 2, 3};
    std::map<uint8_t, int32_t> m{{1, 2}, {9, -1}};
    std::vector<std::string> names{"a", ""};
    uint32_t crc = 5;
    auto tie() { return std::tie(name, v, m, names, crc); }
    auto tie() const { return std::tie(name, v, m, names, crc); }
    template <class R> void reflect(R &r)
    {
        r &name;
        r &v;
        r &m;
        r &names;
        r &crc;
    }
};
struct SF // both systems: scalars and vectors of scalars with non-empty defaults
{
    int32_t n = 7;
    std::vector<uint8_t> bytes{0xAA, 0x55};
    std::vector<double> w{1.5};
    auto tie() { return std::tie(n, bytes, w); }
    auto tie() const { return std::tie(n, bytes, w); }
    template <class R> void reflect(R &r)
    {
        r &n;
        r &bytes;
        r &w;
    }
    template <class R> void serialize_reflect(R &r)
    {
        r &n;
        r &bytes;
        r &w;
    }
    template <class R> void serialize_reflect(R &r) const
    {
        r &n;
        r &bytes;
        r &w;
    }
};

// ------------------------------------------------------------ nesting depth
// scalar 0; string 1; container / pair / tuple / struct = 1 + deepest member
template <class T> constexpr int depth();
template <class... A> constexpr int max_depth()
{
    int m = 0;
    ((m = depth<A>() > m ? depth<A>() : m), ...);
    return m;
}
template <class Tup> struct tup_depth;
template <class... A> struct tup_depth<std::tuple<A...>>
{
    static constexpr int value = max_depth<std::remove_cvref_t<A>...>();
};
template <class T> constexpr int depth()
{
    if constexpr (is_scalar<T>)
        return 0;
    else if constexpr (is_str<T>)
        return 1;
    else if constexpr (is_vec<T>::value)
        return 1 + depth<typename T::value_type>();
    else if constexpr (is_map<T>::value)
        return 1 + max_depth<typename T::key_type, typename T::mapped_type>();
    else if constexpr (is_pair<T>::value)
        return 1 + max_depth<typename T::first_type, typename T::second_type>();
    else if constexpr (is_tup<T>::value)
        return 1 + tup_depth<T>::value;
    else
        return 1 + tup_depth<decltype(std::declval<T &>().tie())>::value;
}
template <class T> constexpr const char *category()
{
    if constexpr (is_scalar<T>)
        return std::is_floating_point_v<T> ? "cat:float" : "cat:integer";
    else if constexpr (is_str<T>)
        return "cat:string";
    else if constexpr (is_vec<T>::value)
        return is_scalar<typename T::value_type> ? "cat:vector<scalar>" : "cat:vector<composite>";
    else if constexpr (is_map<T>::value)
        return "cat:map";
    else if constexpr (is_pair<T>::value)
        return "cat:pair";
    else if constexpr (is_tup<T>::value)
        return "cat:tuple";
    else
        return "cat:struct";
}

// does a value of type T carry a length/count field anywhere?
template <class T> constexpr bool contains_container();
template <class Tup> struct tup_cc;
template <class... A> struct tup_cc<std::tuple<A...>>
{
    static constexpr bool value = (contains_container<std::remove_cvref_t<A>>() || ...);
};
template <class T> constexpr bool contains_container()
{
    if constexpr (is_scalar<T>)
        return false;
    else if constexpr (is_str<T> || is_vec<T>::value || is_map<T>::value)
        return true;
    else if constexpr (is_pair<T>::value)
        return contains_container<typename T::first_type>() || contains_container<typename T::second_type>();
    else if constexpr (is_tup<T>::value)
        return tup_cc<T>::value;
    else
        return tup_cc<decltype(std::declval<T &>().tie())>::value;
}

// ---------------------------------------------------------------- generator
struct Gen
{
    Src *s;
    Src *main;
    Src bigsrc{nullptr, 0};
    std::vector<uint8_t> bigbuf;
    long budget = 256;     // elements still available to ordinary containers
    int maxn = 20;         // ordinary size ceiling
    bool want_big = false; // containers may draw the "large" size class (255..65535) once
    bool in_big = false;
    int cdepth = 0, big_at = -1;
    // observations (non-trivial rule, labels)
    bool nonempty = false, empty = false, nul = false, big = false, cap16 = false;

    explicit Gen(Src &src) : s(&src), main(&src) {}

    // edepth = nesting depth of the element type (0 scalar / bytes).
    // The size class is one draw whose value grows with the size (0, 1, 2..4, 5..maxn, large),
    // so lowering that byte during shrinking walks a failing large case down to the small ones.
    size_t begin_container(int edepth)
    {
        size_t n;
        if (in_big)
            n = (size_t)s->below(3);
        else
        {
            size_t cls = want_big ? s->weighted({4, 3, 4, 2, 13}) : s->weighted({4, 3, 4, 2});
            if (cls == 4)
            {
                static const uint32_t B[] = {255,   256,   257,   1000,  4095,  4096,  8191,  8192,
                                             8193,  16383, 16384, 16385, 32767, 32768, 65534, 65535};
                want_big = false;
                size_t k = (size_t)main->below(21);
                n = k < 16 ? B[k] : (size_t)main->range(21, 65535);
                if (edepth >= 2 && n > 8192) // elements holding containers of containers: keep the case in the ms range
                    n = 8192;
                // contents of a large container come from a counter-based stream keyed by the case
                uint64_t x = main->u32() | 0x100000000ull;
                bigbuf.resize(384 * 1024);
                for (size_t i = 0; i + 8 <= bigbuf.size(); i += 8)
                {
                    x += 0x9E3779B97F4A7C15ull;
                    uint64_t z = x;
                    z = (z ^ (z >> 30)) * 0xBF58476D1CE4E5B9ull;
                    z = (z ^ (z >> 27)) * 0x94D049BB133111EBull;
                    z ^= z >> 31;
                    memcpy(&bigbuf[i], &z, 8);
                }
                bigsrc = Src(bigbuf.data(), bigbuf.size());
                s = &bigsrc;
                in_big = true;
                big_at = cdepth;
                big = true;
                if (n == 65535)
                    cap16 = true;
            }
            else
            {
                switch (cls)
                {
                case 0:
                    n = 0;
                    break;
                case 1:
                    n = 1;
                    break;
                case 2:
                    n = (size_t)s->range(2, 4);
                    break;
                default:
                    n = (size_t)s->range(5, maxn);
                }
                if ((long)n > budget)
                    n = budget > 0 ? (size_t)budget : 0;
                budget -= (long)n;
            }
        }
        cdepth++;
        if (n)
            nonempty = true;
        else
            empty = true;
        return n;
    }
    void end_container()
    {
        cdepth--;
        if (in_big && cdepth == big_at)
        {
            in_big = false;
            s = main;
        }
    }
};

template <class F> F gen_float(Src &s)
{
    using U = std::conditional_t<sizeof(F) == 4, uint32_t, uint64_t>;
    constexpr int MB = sizeof(F) == 4 ? 23 : 52;
    constexpr int TB = sizeof(F) * 8;
    const U expmask = (U)(((U)1 << (TB - 1 - MB)) - 1) << MB;
    const U sign = (U)1 << (TB - 1);
    U bits;
    switch (s.below(4))
    {
    case 0:
    {
        const U sp[] = {
            0,                                    // +0
            sign,                                 // -0
            expmask,                              // +inf
            (U)(sign | expmask),                  // -inf
            (U)(expmask | ((U)1 << (MB - 1))),    // quiet NaN
            (U)(expmask | 1),                     // signalling NaN, payload 1
            (U)(sign | expmask | (((U)1 << MB) - 1)), // -NaN, all payload bits
            1,                                    // smallest denormal
            (U)(((U)1 << MB) - 1),                // largest denormal
            (U)((U)1 << MB),                      // smallest normal
            (U)(expmask - 1),                     // largest finite
            std::bit_cast<U>((F)1),
            std::bit_cast<U>((F)-1),
            std::bit_cast<U>((F)0.1),
            (U)0x0102030405060708ull,             // every byte different
            (U)~(U)0,
        };
        bits = sp[s.below(sizeof sp / sizeof sp[0])];
        break;
    }
    case 1:
        bits = std::bit_cast<U>((F)((F)s.range(-1000, 1000) / (F)(1 << s.below(8))));
        break;
    default:
        bits = (U)s.u64();
    }
    return std::bit_cast<F>(bits);
}

template <class T> void gen(Gen &g, T &out);

inline void gen_string(Gen &g, std::string &out)
{
    size_t n = g.begin_container(0);
    static const char alpha[] = {0, 'a', 'b', ' ', (char)0xFF, (char)0x80, '\n', 'Z'};
    int style = (int)g.s->below(3);
    out.resize(n);
    for (size_t i = 0; i < n; i++)
    {
        char ch = style == 0 ? alpha[g.s->below(sizeof alpha)]
                  : style == 1 ? (char)g.s->u8()
                               : (char)('a' + g.s->below(26));
        out[i] = ch;
        if (ch == 0)
            g.nul = true;
    }
    g.end_container();
}

template <class T> void gen(Gen &g, T &out)
{
    if constexpr (std::is_floating_point_v<T>)
        out = gen_float<T>(*g.s);
    else if constexpr (std::is_integral_v<T>)
        out = g.s->template biased_int<T>();
    else if constexpr (is_str<T>)
        gen_string(g, out);
    else if constexpr (is_vec<T>::value)
    {
        size_t n = g.begin_container(depth<typename T::value_type>());
        out.clear();
        out.reserve(n);
        for (size_t i = 0; i < n; i++)
        {
            typename T::value_type e{};
            gen(g, e);
            out.push_back(std::move(e));
        }
        g.end_container();
    }
    else if constexpr (is_map<T>::value)
    {
        size_t n = g.begin_container(max_depth<typename T::key_type, typename T::mapped_type>());
        out.clear();
        for (size_t i = 0; i < n; i++)
        {
            typename T::key_type k{};
            typename T::mapped_type v{};
            gen(g, k);
            gen(g, v);
            out[k] = std::move(v);
        }
        g.end_container();
    }
    else if constexpr (is_pair<T>::value)
    {
        gen(g, out.first);
        gen(g, out.second);
    }
    else if constexpr (is_tup<T>::value)
        std::apply([&](auto &...m) { (gen(g, m), ...); }, out);
    else
        std::apply([&](auto &...m) { (gen(g, m), ...); }, out.tie());
}

// ------------------------------------------------ equality (floats bitwise)
template <class T> bool eq(const T &a, const T &b)
{
    if constexpr (std::is_floating_point_v<T>)
        return memcmp(&a, &b, sizeof(T)) == 0;
    else if constexpr (is_scalar<T> || is_str<T>)
        return a == b;
    else if constexpr (is_vec<T>::value)
    {
        if (a.size() != b.size())
            return false;
        for (size_t i = 0; i < a.size(); i++)
            if (!eq(a[i], b[i]))
                return false;
        return true;
    }
    else if constexpr (is_map<T>::value)
    {
        if (a.size() != b.size())
            return false;
        auto i = a.begin();
        auto j = b.begin();
        for (; i != a.end(); ++i, ++j)
            if (!eq(i->first, j->first) || !eq(i->second, j->second))
                return false;
        return true;
    }
    else if constexpr (is_pair<T>::value)
        return eq(a.first, b.first) && eq(a.second, b.second);
    else if constexpr (is_tup<T>::value)
        return [&]<size_t... I>(std::index_sequence<I...>)
        { return (eq(std::get<I>(a), std::get<I>(b)) && ...); }(std::make_index_sequence<std::tuple_size_v<T>>{});
    else
    {
        auto ta = a.tie();
        auto tb = b.tie();
        return [&]<size_t... I>(std::index_sequence<I...>)
        {
            return (eq(std::get<I>(ta), std::get<I>(tb)) && ...);
        }(std::make_index_sequence<std::tuple_size_v<decltype(ta)>>{});
    }
}

// ---------------------------------------- the independent reference encoder
// When set, receives the end offset of the last count field that governs elements which
// themselves carry counts (used by the truncation target for cost control only).
inline size_t *enc_outer_count_end = nullptr;
inline void enc_u16(size_t n, std::string &out)
{
    uint16_t v = (uint16_t)n; // callers keep n <= 65535 (the statement's domain)
    out.append((const char *)&v, 2);
}
template <class T> void enc(const T &v, std::string &out)
{
    if constexpr (is_scalar<T>)
        out.append((const char *)&v, sizeof(T));
    else if constexpr (is_str<T>)
    {
        enc_u16(v.size(), out);
        out.append(v);
    }
    else if constexpr (is_vec<T>::value)
    {
        enc_u16(v.size(), out);
        if constexpr (contains_container<typename T::value_type>())
            if (enc_outer_count_end)
                *enc_outer_count_end = out.size();
        for (const auto &e : v)
            enc(e, out);
    }
    else if constexpr (is_map<T>::value)
    {
        enc_u16(v.size(), out);
        for (const auto &kv : v) // std::map iterates in key order
        {
            enc(kv.first, out);
            enc(kv.second, out);
        }
    }
    else if constexpr (is_pair<T>::value)
    {
        enc(v.first, out);
        enc(v.second, out);
    }
    else if constexpr (is_tup<T>::value)
        std::apply([&](const auto &...m) { (enc(m, out), ...); }, v);
    else
        std::apply([&](const auto &...m) { (enc(m, out), ...); }, v.tie());
}
template <class T> std::string enc(const T &v)
{
    std::string out;
    enc(v, out);
    return out;
}

// ------------------------------------------------------------------ printer
inline void show_bytes(const std::string &v, std::string &out)
{
    char b[8];
    out += '"';
    size_t lim = v.size() < 24 ? v.size() : 24;
    for (size_t i = 0; i < lim; i++)
    {
        unsigned char ch = (unsigned char)v[i];
        if (ch >= 0x20 && ch < 0x7f && ch != '"' && ch != '\\')
            out += (char)ch;
        else
        {
            snprintf(b, sizeof b, "\\x%02x", ch);
            out += b;
        }
    }
    out += '"';
    if (v.size() > lim)
    {
        snprintf(b, sizeof b, "%zu", v.size());
        out += "..(n=";
        out += b;
        out += ')';
    }
}
template <class T> void show(const T &v, std::string &out)
{
    char b[48];
    if (out.size() > 700)
    {
        if (out.size() < 704)
            out += "....";
        return;
    }
    if constexpr (std::is_same_v<T, float>)
    {
        snprintf(b, sizeof b, "f32:%08x", std::bit_cast<uint32_t>(v));
        out += b;
    }
    else if constexpr (std::is_same_v<T, double>)
    {
        snprintf(b, sizeof b, "f64:%016llx", (unsigned long long)std::bit_cast<uint64_t>(v));
        out += b;
    }
    else if constexpr (std::is_integral_v<T>)
    {
        if constexpr (std::is_signed_v<T>)
            snprintf(b, sizeof b, "%lld", (long long)v);
        else
            snprintf(b, sizeof b, "%lluu", (unsigned long long)v);
        out += b;
    }
    else if constexpr (is_str<T>)
        show_bytes(v, out);
    else if constexpr (is_vec<T>::value)
    {
        out += '[';
        size_t i = 0;
        for (const auto &e : v)
        {
            if (i == 6)
                break;
            if (i++)
                out += ',';
            show(e, out);
        }
        if (v.size() > 6)
        {
            snprintf(b, sizeof b, ",..(n=%zu)", v.size());
            out += b;
        }
        out += ']';
    }
    else if constexpr (is_map<T>::value)
    {
        out += '{';
        size_t i = 0;
        for (const auto &kv : v)
        {
            if (i == 6)
                break;
            if (i++)
                out += ',';
            show(kv.first, out);
            out += ':';
            show(kv.second, out);
        }
        if (v.size() > 6)
        {
            snprintf(b, sizeof b, ",..(n=%zu)", v.size());
            out += b;
        }
        out += '}';
    }
    else if constexpr (is_pair<T>::value)
    {
        out += '(';
        show(v.first, out);
        out += ',';
        show(v.second, out);
        out += ')';
    }
    else
    {
        auto pr = [&](const auto &...m)
        {
            size_t i = 0;
            ((out += (i++ ? "," : ""), show(m, out)), ...);
        };
        if constexpr (is_tup<T>::value)
        {
            out += "t(";
            std::apply(pr, v);
        }
        else
        {
            out += "s(";
            std::apply(pr, v.tie());
        }
        out += ')';
    }
}
template <class T> std::string show(const T &v)
{
    std::string out;
    show(v, out);
    return out;
}

// -------------------------- which known-finding input classes a value is in
struct Scan
{
    size_t composite_vec_elems = 0; // largest vector<T>, T not arithmetic
    size_t scalar_vec_bytes = 0;    // largest size()*sizeof(T) of a vector<T>, T arithmetic
    bool null_data_vec = false;     // some vector has data() == nullptr (never allocated, empty)
};
template <class T> void scan(const T &v, Scan &sc)
{
    if constexpr (is_scalar<T> || is_str<T>)
        (void)v;
    else if constexpr (is_vec<T>::value)
    {
        using E = typename T::value_type;
        if (v.data() == nullptr)
            sc.null_data_vec = true;
        if constexpr (is_scalar<E>)
        {
            if (v.size() * sizeof(E) > sc.scalar_vec_bytes)
                sc.scalar_vec_bytes = v.size() * sizeof(E);
        }
        else
        {
            if (v.size() > sc.composite_vec_elems)
                sc.composite_vec_elems = v.size();
            for (const auto &e : v)
                scan(e, sc);
        }
    }
    else if constexpr (is_map<T>::value)
    {
        for (const auto &kv : v)
        {
            scan(kv.first, sc);
            scan(kv.second, sc);
        }
    }
    else if constexpr (is_pair<T>::value)
    {
        scan(v.first, sc);
        scan(v.second, sc);
    }
    else if constexpr (is_tup<T>::value)
        std::apply([&](const auto &...m) { (scan(m, sc), ...); }, v);
    else
        std::apply([&](const auto &...m) { (scan(m, sc), ...); }, v.tie());
}

// ------------------------------------------------------------------ helpers
inline std::string hexs(const std::string &s, size_t max = 48)
{
    return vpbt::hexdump(s.data(), s.size(), max);
}
inline uint64_t fnv64(const std::string &s)
{
    uint64_t h = 1469598103934665603ull;
    for (unsigned char ch : s)
        h = (h ^ ch) * 1099511628211ull;
    return h;
}
inline std::string unhex(const char *h)
{
    std::string out;
    int hi = -1;
    for (; *h; h++)
    {
        int d = *h >= '0' && *h <= '9'   ? *h - '0'
                : *h >= 'a' && *h <= 'f' ? *h - 'a' + 10
                : *h >= 'A' && *h <= 'F' ? *h - 'A' + 10
                                         : -1;
        if (d < 0)
            continue; // spaces group the fields
        if (hi < 0)
            hi = d;
        else
        {
            out += (char)(hi * 16 + d);
            hi = -1;
        }
    }
    return out;
}

// One generated case = a type (chosen by the caller), two values a (may be
// large) and b (ordinary) of it, their description, flags and labels.
template <class T> struct TwoValues
{
    T a{}, b{};
    std::string ra, rb; // reference encodings
    Scan sc;
};
template <class T> void make_case(Src &s, Case &c, const char *tname, TwoValues<T> &tv, int maxn = 20, long budget = 256)
{
    Gen g(s);
    g.maxn = maxn;
    g.budget = budget;
    if constexpr (!is_scalar<T>)
    {
        uint64_t den = vpbt::tier() ? 12 : 48;
        g.want_big = s.below(den) == den - 1; // a zeroed choice sequence stays ordinary
    }
    gen(g, tv.a);
    g.want_big = false;
    g.budget = budget / 2;
    gen(g, tv.b);
    enc(tv.a, tv.ra);
    enc(tv.b, tv.rb);
    scan(tv.a, tv.sc);
    scan(tv.b, tv.sc);
    c.log("type=%s a=", tname);
    c.log("%s", show(tv.a).c_str());
    c.log(" b=");
    c.log("%s", show(tv.b).c_str());
    c.log(" wire(a)=%zuB#%016llx", tv.ra.size(), (unsigned long long)fnv64(tv.ra));
    // NT (DESIGN §5 C09): a non-empty container, a string with an embedded NUL, or nesting depth >= 2
    c.nontrivial = g.nonempty || g.nul || depth<T>() >= 2;
    c.label(tname);
    c.label(category<T>());
    if (g.nul)
        c.label("embedded_nul");
    if (g.empty)
        c.label("has_empty_container");
    if (g.nonempty)
        c.label("has_nonempty_container");
    if (g.big)
        c.label("large_container(255..65535)");
    if (g.cap16)
        c.label("count==65535");
    if (tv.sc.scalar_vec_bytes > 65535)
        c.label("vector<scalar>_payload>65535B");
    if (depth<T>() >= 2)
        c.label("depth>=2");
    if (depth<T>() >= 3)
        c.label("depth>=3");
}

// --------------------------------------------------------------- golden bytes
// Fixed values with their encodings written by hand from the documented layout
// (NOT produced by igris or by enc() above; golden_check also holds enc() to
// them). Sys supplies encode/decode of the system under test and its
// known-finding guard.
template <class Sys, class T> void golden_check(Case &c, const char *what, const T &v, const char *hex)
{
    std::string want = unhex(hex);
    c.log("golden[%s] %s = %s  bytes=%s", Sys::name, what, show(v).c_str(), hex);
    c.nontrivial = true;
    c.label(category<T>());
    std::string ref = enc(v);
    VP_CHECK(ref == want, "harness_reference_encoder_vs_golden",
             "%s: harness reference encoder gives %s, committed golden is %s", what, hexs(ref).c_str(),
             hexs(want).c_str());
    if (Sys::known_skip(c, v))
        return;
    std::string got = Sys::encode(v);
    VP_CHECK(got == want, "golden_encode", "%s %s: serialize gives %zu bytes %s, recorded encoding is %zu bytes %s",
             Sys::name, what, got.size(), hexs(got).c_str(), want.size(), hexs(want).c_str());
    Exact blk(want.data(), want.size());
    size_t used = 0;
    T r = Sys::template decode<T>(blk, used);
    VP_CHECK(eq(r, v), "golden_decode", "%s %s: recorded encoding %s decodes to %s", Sys::name, what,
             hexs(want).c_str(), show(r).c_str());
    VP_CHECK(used == want.size(), "golden_consumed", "%s %s: decoding consumed %zu of %zu bytes", Sys::name, what,
             used, want.size());
}

// entries valid for both systems (scalars, vectors, structs with serialize_reflect)
inline constexpr size_t GOLDEN_COMMON = 22;
template <class Sys> void golden_common(size_t k, Case &c)
{
    using std::vector;
    switch (k)
    {
    case 0:
        return golden_check<Sys>(c, "int8 -2", (int8_t)-2, "fe");
    case 1:
        return golden_check<Sys>(c, "uint8 200", (uint8_t)200, "c8");
    case 2:
        return golden_check<Sys>(c, "int16 -2", (int16_t)-2, "feff");
    case 3:
        return golden_check<Sys>(c, "uint16 0x1234", (uint16_t)0x1234, "3412");
    case 4:
        return golden_check<Sys>(c, "int32 -2", (int32_t)-2, "feffffff");
    case 5:
        return golden_check<Sys>(c, "uint32 0xdeadbeef", (uint32_t)0xdeadbeefu, "efbeadde");
    case 6:
        return golden_check<Sys>(c, "int64 min", (int64_t)INT64_MIN, "0000000000000080");
    case 7:
        return golden_check<Sys>(c, "uint64 0x0102030405060708", (uint64_t)0x0102030405060708ull,
                                 "0807060504030201");
    case 8:
        return golden_check<Sys>(c, "float 1.0", 1.0f, "0000803f");
    case 9:
        return golden_check<Sys>(c, "float -inf", -__builtin_inff(), "000080ff");
    case 10:
        return golden_check<Sys>(c, "double -2.5", -2.5, "00000000000004c0");
    case 11:
        return golden_check<Sys>(c, "double min denormal", 4.9406564584124654e-324, "0100000000000000");
    case 12:
        return golden_check<Sys>(c, "vector<uint8>{}", vector<uint8_t>{}, "0000");
    case 13:
        return golden_check<Sys>(c, "vector<int32>{1,-1}", vector<int32_t>{1, -1}, "0200 01000000 ffffffff");
    case 14:
        return golden_check<Sys>(c, "vector<int16>{256,2,-32768}", vector<int16_t>{256, 2, -32768},
                                 "0300 0001 0200 0080");
    case 15:
        return golden_check<Sys>(c, "vector<double>{0.5}", vector<double>{0.5}, "0100 000000000000e03f");
    case 16:
        return golden_check<Sys>(c, "vector<vector<int16>>{{1},{},{-1,2}}",
                                 vector<vector<int16_t>>{{1}, {}, {-1, 2}}, "0300 0100 0100 0000 0200 ffff 0200");
    case 17:
    {
        SA a;
        a.a = 34, a.b = 83, a.c = 17; // the object of tests/archive/serialize.cpp: 4+1+2 bytes
        return golden_check<Sys>(c, "struct SA{34,83,17}", a, "22000000 53 1100");
    }
    case 18:
    {
        SB b;
        b.tag = 7, b.v = {1, 2}, b.d = 1.0, b.f = -2.0f;
        return golden_check<Sys>(c, "struct SB{7,{1,2},1.0,-2.0f}", b,
                                 "07 0200 01000000 02000000 000000000000f03f 000000c0");
    }
    case 19:
    {
        SC x;
        x.id = 0x0102, x.b.tag = 9, x.tail = -2; // empty vectors inside
        return golden_check<Sys>(c, "struct SC{0x0102,{},SB{9,{},0,0},-2}", x,
                                 "0201 0000 09 0000 0000000000000000 00000000 feffffffffffffff");
    }
    case 20:
    {
        SC x;
        x.id = 1, x.tail = 3;
        SA a;
        a.a = -1, a.b = 2, a.c = 3;
        x.items = {a, SA{}};
        x.b.v = {5};
        return golden_check<Sys>(c, "struct SC{1,{SA{-1,2,3},SA{}},SB{0,{5},0,0},3}", x,
                                 "0100 0200 ffffffff 02 0300 00000000 00 0000"
                                 " 00 0100 05000000 0000000000000000 00000000 0300000000000000");
    }
    default:
    {
        SA a;
        a.a = 1, a.b = 2, a.c = 3;
        SA b;
        b.a = 4, b.b = 5, b.c = 6;
        return golden_check<Sys>(c, "vector<SA>{{1,2,3},{4,5,6}}", vector<SA>{a, b},
                                 "0200 01000000 02 0300 04000000 05 0600");
    }
    }
}

} // namespace c09
